import PSO.Proofs.Versions

/-! Apply loop lemmas for C17. -/
namespace PSO.Versions

/-- Log positions are consecutive, starting at `f`. -/
def Consec (f : Nat) (l : List Entry) : Prop := ∀ i (h : i < l.length), (l[i]).idx = f + i

theorem Consec.nil (f : Nat) : Consec f [] := fun _ h => absurd h (Nat.not_lt_zero _)

theorem Consec.head {f : Nat} {e : Entry} {es : List Entry} (h : Consec f (e :: es)) : e.idx = f := by
  have := h 0 (Nat.zero_lt_succ _)
  simpa using this

theorem Consec.tail {f : Nat} {e : Entry} {es : List Entry} (h : Consec f (e :: es)) : Consec (f + 1) es := by
  intro i hi
  have := h (i + 1) (by simpa using hi)
  simp only [List.getElem_cons_succ] at this
  omega

theorem Consec.append {f : Nat} {l es : List Entry} (h1 : Consec f l) (h2 : Consec (f + l.length) es) :
    Consec f (l ++ es) := by
  intro i hi
  by_cases h : i < l.length
  · rw [List.getElem_append_left h]; exact h1 i h
  · rw [List.getElem_append_right (by omega)]
    have := h2 (i - l.length) (by simp at hi; omega)
    omega

theorem Consec.drop {f : Nat} {l : List Entry} (h : Consec f l) (k : Nat) : Consec (f + k) (l.drop k) := by
  intro i hi
  rw [List.getElem_drop]
  have := h (k + i) (by simp at hi; omega)
  omega

theorem Consec.take {f : Nat} {l : List Entry} (h : Consec f l) (k : Nat) : Consec f (l.take k) := by
  intro i hi
  rw [List.getElem_take]
  exact h i (by simp at hi; omega)

theorem Consec.idx_of_mem {f : Nat} {l : List Entry} (h : Consec f l) {e : Entry} (he : e ∈ l) :
    ∃ p, ∃ hp : p < l.length, l[p] = e ∧ e.idx = f + p := by
  obtain ⟨p, hp, rfl⟩ := List.getElem_of_mem he
  exact ⟨p, hp, rfl, h p hp⟩

/-- A window `__getEntries(fromIdx, count)` of a consecutive log is consecutive from `fromIdx`. -/
theorem getEntries_consec {f : Nat} {log : List Entry} (h : Consec f log) (fromIdx count : Nat) :
    Consec fromIdx (getEntries log fromIdx count) := by
  unfold getEntries
  cases log with
  | nil => exact Consec.nil _
  | cons e0 rest =>
    have hf : e0.idx = f := h.head
    simp only
    split
    · exact Consec.nil _
    · have := (h.drop (fromIdx - e0.idx)).take count
      have e : f + (fromIdx - e0.idx) = fromIdx := by omega
      rwa [e] at this

/-- Entries of the batch are entries of the log; an entry of the log whose position is inside the batch window
is in the batch. -/
theorem mem_getEntries_of_window {f : Nat} {log : List Entry} (h : Consec f log) (la count : Nat) {e : Entry}
    (he : e ∈ log) (h1 : la < e.idx) (h2 : e.idx ≤ la + (getEntries log (la + 1) count).length) :
    e ∈ getEntries log (la + 1) count := by
  obtain ⟨p, hp, hpe, hidx⟩ := h.idx_of_mem he
  unfold getEntries at h2 ⊢
  cases log with
  | nil => cases he
  | cons e0 rest =>
    have hf : e0.idx = f := h.head
    simp only at h2 ⊢
    split at h2
    · simp at h2; omega
    · rename_i hlt
      rw [if_neg hlt]
      rw [List.mem_iff_getElem]
      have hlen := h2
      simp only [List.length_take, List.length_drop] at hlen
      refine ⟨e.idx - (la + 1), by simp only [List.length_take, List.length_drop]; omega, ?_⟩
      rw [List.getElem_take, List.getElem_drop]
      have : la + 1 - e0.idx + (e.idx - (la + 1)) = p := by omega
      simp only [this, hpe]

def ranIdxs : List Ev → List Nat
  | [] => []
  | .ran i _ _ :: evs => i :: ranIdxs evs
  | _ :: evs => ranIdxs evs

theorem ranIdxs_append (a b : List Ev) : ranIdxs (a ++ b) = ranIdxs a ++ ranIdxs b := by
  induction a with
  | nil => rfl
  | cons x xs ih => cases x <;> simp [ranIdxs, ih]

theorem ranIdxs_fireCallbacks (subs : List (Nat × Nat)) (t : Nat) (r : Res) :
    ranIdxs (fireCallbacks subs t r) = [] := by
  induction subs with
  | nil => rfl
  | cons s ss ih =>
    simp only [fireCallbacks, List.map_cons] at ih ⊢
    split <;> simpa [ranIdxs] using ih

def Unsupported (cls : ClassDef) (e : Entry) : Prop := ∃ v, e.cmd = .version v ∧ selfCodeVersion cls < v

/-- One iteration that lets the loop go on: exactly this entry was consumed. -/
theorem applyEntry_continue {n n' : Node} {e : Entry} {evs : List Ev} (h : applyEntry n e = (n', evs, true)) :
    n'.cls = n.cls ∧ n'.lastApplied = n.lastApplied + 1 ∧ n'.log = n.log ∧ n'.commit = n.commit ∧
    ¬ Unsupported n.cls e ∧ (∀ i ∈ ranIdxs evs, i = e.idx) ∧ n'.enabled ≤ max n.enabled (selfCodeVersion n.cls) := by
  unfold applyEntry at h
  simp only at h
  split at h
  · rename_i v hv
    split at h
    · simp at h
    · rename_i hsv
      split at h
      · simp only [Prod.mk.injEq, and_true] at h
        obtain ⟨rfl, rfl⟩ := h
        refine ⟨rfl, rfl, rfl, rfl, ?_, ?_, ?_⟩
        · rintro ⟨v', hv', hlt⟩; rw [hv] at hv'; cases hv'; omega
        · simp [ranIdxs_fireCallbacks]
        · simp only; omega
      · simp only [Prod.mk.injEq, and_true] at h
        obtain ⟨rfl, rfl⟩ := h
        refine ⟨rfl, rfl, rfl, rfl, ?_, ?_, ?_⟩
        · rintro ⟨v', hv', hlt⟩; rw [hv] at hv'; cases hv'; omega
        · simp [ranIdxs_fireCallbacks, ranIdxs]
        · simp only; omega
  · rename_i fid arg hc
    split at h
    · simp only [Prod.mk.injEq, and_true] at h
      obtain ⟨rfl, rfl⟩ := h
      refine ⟨rfl, rfl, rfl, rfl, ?_, ?_, ?_⟩
      · rintro ⟨v', hv', _⟩; rw [hc] at hv'; cases hv'
      · simp [ranIdxs_fireCallbacks, ranIdxs]
      · simp only; omega
    · simp only [Prod.mk.injEq, and_true] at h
      obtain ⟨rfl, rfl⟩ := h
      refine ⟨rfl, rfl, rfl, rfl, ?_, ?_, ?_⟩
      · rintro ⟨v', hv', _⟩; rw [hc] at hv'; cases hv'
      · simp [ranIdxs_fireCallbacks, ranIdxs]
      · simp only; omega
  · rename_i hnv hnr
    simp only [Prod.mk.injEq, and_true] at h
    obtain ⟨rfl, rfl⟩ := h
    refine ⟨rfl, rfl, rfl, rfl, ?_, ?_, ?_⟩
    · rintro ⟨v', hv', _⟩; exact hnv v' hv'
    · simp [ranIdxs_fireCallbacks]
    · simp only; omega

/-- One iteration that stops the loop: nothing was consumed, nothing ran. -/
theorem applyEntry_stop {n n' : Node} {e : Entry} {evs : List Ev} (h : applyEntry n e = (n', evs, false)) :
    n'.cls = n.cls ∧ n'.lastApplied = n.lastApplied ∧ n'.log = n.log ∧ n'.commit = n.commit ∧
    n'.enabled = n.enabled ∧ ranIdxs evs = [] := by
  unfold applyEntry at h
  simp only at h
  split at h
  · split at h
    · simp only [Prod.mk.injEq, and_true] at h
      obtain ⟨rfl, rfl⟩ := h
      exact ⟨rfl, rfl, rfl, rfl, rfl, rfl⟩
    · split at h <;> simp at h
  · split at h
    · simp at h
    · simp at h
  · simp at h

/-- The ONLY thing that stops the loop is a VERSION entry this code does not have (an unknown method id does not:
its `KeyError` is the command's result, repair D9); the node is then exactly as before the entry. -/
theorem applyEntry_stop_iff {n n' : Node} {e : Entry} {evs : List Ev} (h : applyEntry n e = (n', evs, false)) :
    Unsupported n.cls e ∧ n' = n := by
  unfold applyEntry at h
  simp only at h
  split at h
  · rename_i v hv
    split at h
    · rename_i hlt
      simp only [Prod.mk.injEq, and_true] at h
      exact ⟨⟨v, hv, hlt⟩, h.1.symm⟩
    · split at h <;> simp at h
  · split at h
    · simp at h
    · simp at h
  · simp at h

/-- An unsupported VERSION entry stops the loop and leaves the node as it was (subscribers included). -/
theorem applyEntry_unsupported {n : Node} {e : Entry} (h : Unsupported n.cls e) :
    ∃ v, applyEntry n e = (n, [Ev.wrongVer (selfCodeVersion n.cls) v], false) := by
  obtain ⟨v, hv, hlt⟩ := h
  refine ⟨v, ?_⟩
  unfold applyEntry
  simp only [hv, hlt, if_true]

theorem Consec.le_idx {f : Nat} {l : List Entry} (h : Consec f l) {e : Entry} (he : e ∈ l) : f ≤ e.idx := by
  obtain ⟨p, _, _, hidx⟩ := h.idx_of_mem he
  omega

/-- The `for entry in entries` loop on a consecutive batch that starts right after `lastApplied`. -/
theorem applyBatch_spec : ∀ (es : List Entry) (n n' : Node) (evs : List Ev),
    Consec (n.lastApplied + 1) es → applyBatch n es = (n', evs) →
    n'.cls = n.cls ∧ n'.log = n.log ∧ n'.commit = n.commit ∧
    n.lastApplied ≤ n'.lastApplied ∧ n'.lastApplied ≤ n.lastApplied + es.length ∧
    (∀ i ∈ ranIdxs evs, n.lastApplied < i ∧ i ≤ n'.lastApplied) ∧
    (ranIdxs evs).Pairwise (· < ·) ∧
    (∀ e ∈ es, Unsupported n.cls e → n'.lastApplied < e.idx) ∧
    n'.enabled ≤ max n.enabled (selfCodeVersion n.cls)
  | [], n, n', evs, _, h => by
    simp only [applyBatch, Prod.mk.injEq] at h
    obtain ⟨rfl, rfl⟩ := h
    simp [ranIdxs]
    omega
  | e :: rest, n, n', evs, hc, h => by
    have hidx : e.idx = n.lastApplied + 1 := hc.head
    unfold applyBatch at h
    cases hae : applyEntry n e with
    | mk n1 r =>
      cases r with
      | mk evs1 b =>
        rw [hae] at h
        cases b with
        | true =>
          simp only at h
          obtain ⟨c1, l1, g1, m1, u1, r1, en1⟩ := applyEntry_continue hae
          cases hb : applyBatch n1 rest with
          | mk n2 evs2 =>
            rw [hb] at h
            simp only [Prod.mk.injEq] at h
            obtain ⟨rfl, rfl⟩ := h
            have hc' : Consec (n1.lastApplied + 1) rest := by rw [l1]; exact hc.tail
            obtain ⟨c2, g2, m2, a2, b2, r2, p2, u2, en2⟩ := applyBatch_spec rest n1 n2 evs2 hc' hb
            refine ⟨by rw [c2, c1], by rw [g2, g1], by rw [m2, m1], by omega,
              by simp only [List.length_cons]; omega, ?_, ?_, ?_, ?_⟩
            · intro i hi
              rw [ranIdxs_append, List.mem_append] at hi
              rcases hi with hi | hi
              · have := r1 i hi; omega
              · have := r2 i hi; omega
            · rw [ranIdxs_append, List.pairwise_append]
              refine ⟨?_, p2, ?_⟩
              · rw [List.pairwise_iff_forall_sublist]
                intro a b hab
                have ha := r1 a (hab.subset (by simp))
                have hb' := r1 b (hab.subset (by simp))
                exfalso
                -- two events of one iteration: at most one `ran` per iteration
                have : (ranIdxs evs1).length ≤ 1 := by
                  clear hab ha hb'
                  unfold applyEntry at hae
                  simp only at hae
                  split at hae
                  · split at hae
                    · simp at hae
                    · split at hae
                      · simp only [Prod.mk.injEq, and_true] at hae
                        obtain ⟨_, rfl⟩ := hae
                        simp [ranIdxs_fireCallbacks]
                      · simp only [Prod.mk.injEq, and_true] at hae
                        obtain ⟨_, rfl⟩ := hae
                        simp [ranIdxs_fireCallbacks, ranIdxs]
                  · split at hae
                    · simp only [Prod.mk.injEq, and_true] at hae
                      obtain ⟨_, rfl⟩ := hae
                      simp [ranIdxs_fireCallbacks, ranIdxs]
                    · simp only [Prod.mk.injEq, and_true] at hae
                      obtain ⟨_, rfl⟩ := hae
                      simp [ranIdxs_fireCallbacks, ranIdxs]
                  · simp only [Prod.mk.injEq, and_true] at hae
                    obtain ⟨_, rfl⟩ := hae
                    simp [ranIdxs_fireCallbacks]
                have := hab.length_le
                simp at this
                omega
              · intro a ha b hb'
                have := r1 a ha
                have := r2 b hb'
                omega
            · intro e' he' hu
              rcases List.mem_cons.1 he' with rfl | he'
              · exact absurd hu u1
              · rw [← c1] at hu
                exact u2 e' he' hu
            · rw [c1] at en2; omega
        | false =>
          simp only [Prod.mk.injEq] at h
          obtain ⟨rfl, rfl⟩ := h
          obtain ⟨c1, l1, g1, m1, en1, r1⟩ := applyEntry_stop hae
          refine ⟨c1, g1, m1, by omega, by omega, by simp [r1], by simp [r1], ?_, by omega⟩
          intro e' he' _
          have := hc.le_idx he'
          omega

/-- A batch is consumed completely unless it meets a VERSION entry the code does not have; then it is consumed
exactly up to the first such entry. Nothing else (in particular not an unknown method id) stops it. -/
theorem applyBatch_stops_only_at_unsupported : ∀ (es : List Entry) (n n' : Node) (evs : List Ev),
    applyBatch n es = (n', evs) →
    n'.lastApplied = n.lastApplied + es.length ∨
    ∃ pre e post, es = pre ++ e :: post ∧ Unsupported n.cls e ∧ (∀ x ∈ pre, ¬ Unsupported n.cls x) ∧
      n'.lastApplied = n.lastApplied + pre.length
  | [], n, n', evs, h => by
    simp only [applyBatch, Prod.mk.injEq] at h
    obtain ⟨rfl, _⟩ := h
    exact .inl rfl
  | e :: rest, n, n', evs, h => by
    unfold applyBatch at h
    cases hae : applyEntry n e with
    | mk n1 r =>
      cases r with
      | mk evs1 b =>
        rw [hae] at h
        cases b with
        | true =>
          simp only at h
          obtain ⟨c1, l1, _, _, u1, _, _⟩ := applyEntry_continue hae
          cases hb : applyBatch n1 rest with
          | mk n2 evs2 =>
            rw [hb] at h
            simp only [Prod.mk.injEq] at h
            obtain ⟨rfl, _⟩ := h
            rcases applyBatch_stops_only_at_unsupported rest n1 n2 evs2 hb with hall | ⟨pre, e', post, hes, hu, hpre, hla⟩
            · left; simp only [List.length_cons]; omega
            · right
              rw [c1] at hu hpre
              refine ⟨e :: pre, e', post, by rw [hes]; rfl, hu, ?_, by simp only [List.length_cons]; omega⟩
              intro x hx
              rcases List.mem_cons.1 hx with rfl | hx
              · exact u1
              · exact hpre x hx
        | false =>
          simp only [Prod.mk.injEq] at h
          obtain ⟨rfl, _⟩ := h
          obtain ⟨hu, rfl⟩ := applyEntry_stop_iff hae
          exact .inr ⟨[], e, rest, rfl, hu, by simp, rfl⟩

theorem getEntries_length_le (log : List Entry) (fromIdx count : Nat) :
    (getEntries log fromIdx count).length ≤ count := by
  unfold getEntries
  cases log with
  | nil => simp
  | cons e0 rest =>
    simp only
    split
    · simp
    · simp only [List.length_take]; omega

theorem mem_of_mem_getEntries {log : List Entry} {fromIdx count : Nat} {e : Entry}
    (h : e ∈ getEntries log fromIdx count) : e ∈ log := by
  unfold getEntries at h
  cases log with
  | nil => cases h
  | cons e0 rest =>
    simp only at h
    split at h
    · cases h
    · exact List.mem_of_mem_drop (List.mem_of_mem_take h)

/-- One call of `__applyLogEntries` on a node whose log is consecutive. -/
theorem applyLogEntries_spec {f : Nat} {n n' : Node} {evs : List Ev} (hc : Consec f n.log)
    (h : applyLogEntries n = (n', evs)) :
    n'.cls = n.cls ∧ n'.log = n.log ∧ n'.commit = n.commit ∧
    n.lastApplied ≤ n'.lastApplied ∧ n'.lastApplied ≤ max n.lastApplied n.commit ∧
    (∀ i ∈ ranIdxs evs, n.lastApplied < i ∧ i ≤ n'.lastApplied) ∧
    (ranIdxs evs).Pairwise (· < ·) ∧
    (∀ e ∈ n.log, Unsupported n.cls e → n.lastApplied < e.idx → n'.lastApplied < e.idx) ∧
    n'.enabled ≤ max n.enabled (selfCodeVersion n.cls) := by
  unfold applyLogEntries at h
  split at h
  · simp only [Prod.mk.injEq] at h
    obtain ⟨rfl, rfl⟩ := h
    refine ⟨rfl, rfl, rfl, Nat.le_refl _, by omega, by simp [ranIdxs], by simp [ranIdxs], fun _ _ _ h => h, by omega⟩
  · split at h
    · rename_i hgt
      have hcb := getEntries_consec hc (n.lastApplied + 1) (n.commit - n.lastApplied)
      obtain ⟨c, g, m, a, b, r, p, u, en⟩ := applyBatch_spec _ n n' evs hcb h
      have hl := getEntries_length_le n.log (n.lastApplied + 1) (n.commit - n.lastApplied)
      refine ⟨c, g, m, a, by omega, r, p, ?_, en⟩
      intro e he hu hlt
      by_cases hw : e.idx ≤ n.lastApplied + (getEntries n.log (n.lastApplied + 1) (n.commit - n.lastApplied)).length
      · exact u e (mem_getEntries_of_window hc _ _ he hlt hw) hu
      · omega
    · simp only [Prod.mk.injEq] at h
      obtain ⟨rfl, rfl⟩ := h
      refine ⟨rfl, rfl, rfl, Nat.le_refl _, by omega, by simp [ranIdxs], by simp [ranIdxs], fun _ _ _ h => h, by omega⟩

/-- Appended entries continue the numbering of the log (`len` = current length of the log). -/
def OpsOk (f : Nat) : Nat → List Op → Prop
  | _, [] => True
  | len, .append es :: os => Consec (f + len) es ∧ OpsOk f (len + es.length) os
  | len, .tick :: os => OpsOk f len os
  | len, .setCommit _ :: os => OpsOk f len os
  | len, .subscribe _ _ _ :: os => OpsOk f len os

/-- Any number of ticks, commit moves, appends and subscriptions. -/
theorem run_spec : ∀ (ops : List Op) (n n' : Node) (evs : List Ev) (f : Nat),
    Consec f n.log → OpsOk f n.log.length ops → run n ops = (n', evs) →
    n'.cls = n.cls ∧ (∃ more, n'.log = n.log ++ more) ∧ Consec f n'.log ∧
    n.lastApplied ≤ n'.lastApplied ∧
    (∀ i ∈ ranIdxs evs, n.lastApplied < i ∧ i ≤ n'.lastApplied) ∧
    (ranIdxs evs).Pairwise (· < ·) ∧
    (∀ e ∈ n.log, Unsupported n.cls e → n.lastApplied < e.idx → n'.lastApplied < e.idx) ∧
    n'.enabled ≤ max n.enabled (selfCodeVersion n.cls)
  | [], n, n', evs, f, hc, _, h => by
    simp only [run, Prod.mk.injEq] at h
    obtain ⟨rfl, rfl⟩ := h
    exact ⟨rfl, ⟨[], by simp⟩, hc, Nat.le_refl _, by simp [ranIdxs], by simp [ranIdxs], fun _ _ _ h => h, by omega⟩
  | o :: os, n, n', evs, f, hc, hok, h => by
    unfold run at h
    cases hs : step n o with
    | mk n1 evs1 =>
      rw [hs] at h
      simp only at h
      cases hr : run n1 os with
      | mk n2 evs2 =>
        rw [hr] at h
        simp only [Prod.mk.injEq] at h
        obtain ⟨rfl, rfl⟩ := h
        -- facts about the single step
        have hstep : n1.cls = n.cls ∧ (∃ more, n1.log = n.log ++ more) ∧ Consec f n1.log ∧
            OpsOk f n1.log.length os ∧ n.lastApplied ≤ n1.lastApplied ∧
            (∀ i ∈ ranIdxs evs1, n.lastApplied < i ∧ i ≤ n1.lastApplied) ∧
            (ranIdxs evs1).Pairwise (· < ·) ∧
            (∀ e ∈ n.log, Unsupported n.cls e → n.lastApplied < e.idx → n1.lastApplied < e.idx) ∧
            n1.enabled ≤ max n.enabled (selfCodeVersion n.cls) := by
          cases o with
          | tick =>
            obtain ⟨c, g, _, a, _, r, p, u, en⟩ := applyLogEntries_spec hc hs
            exact ⟨c, ⟨[], by simp [g]⟩, by rw [g]; exact hc, by rw [g]; exact hok, a, r, p, u, en⟩
          | setCommit c =>
            simp only [step, Prod.mk.injEq] at hs
            obtain ⟨rfl, rfl⟩ := hs
            exact ⟨rfl, ⟨[], by simp⟩, hc, hok, Nat.le_refl _, by simp [ranIdxs], by simp [ranIdxs],
              fun _ _ _ h => h, by simp only; omega⟩
          | append es =>
            simp only [step, Prod.mk.injEq] at hs
            obtain ⟨rfl, rfl⟩ := hs
            exact ⟨rfl, ⟨es, rfl⟩, hc.append hok.1, by simpa using hok.2, Nat.le_refl _, by simp [ranIdxs],
              by simp [ranIdxs], fun _ _ _ h => h, by simp only; omega⟩
          | subscribe i t cb =>
            simp only [step, Prod.mk.injEq] at hs
            obtain ⟨rfl, rfl⟩ := hs
            exact ⟨rfl, ⟨[], by simp⟩, hc, hok, Nat.le_refl _, by simp [ranIdxs], by simp [ranIdxs],
              fun _ _ _ h => h, by simp only; omega⟩
        obtain ⟨c1, ⟨more1, g1⟩, hc1, hok1, a1, r1, p1, u1, en1⟩ := hstep
        obtain ⟨c2, ⟨more2, g2⟩, hc2, a2, r2, p2, u2, en2⟩ := run_spec os n1 n2 evs2 f hc1 hok1 hr
        refine ⟨by rw [c2, c1], ⟨more1 ++ more2, by rw [g2, g1, List.append_assoc]⟩, hc2, by omega, ?_, ?_, ?_, ?_⟩
        · intro i hi
          rw [ranIdxs_append, List.mem_append] at hi
          rcases hi with hi | hi
          · have := r1 i hi; omega
          · have := r2 i hi; omega
        · rw [ranIdxs_append, List.pairwise_append]
          refine ⟨p1, p2, ?_⟩
          intro a ha b hb
          have := r1 a ha
          have := r2 b hb
          omega
        · intro e he hu hlt
          have h1 := u1 e he hu hlt
          have he1 : e ∈ n1.log := by rw [g1]; exact List.mem_append_left _ he
          rw [← c1] at hu
          exact u2 e he1 hu h1
        · rw [c1] at en2; omega

/-! ## The enabled version is a function of the applied entries -/

/-- The enabled version after applying `es` in order, starting from `init`: the HIGHEST version among `init` and the
VERSION entries (an entry below the version enabled at its position changes nothing, repair D71). -/
def versionAfter (init : Nat) : List Entry → Nat
  | [] => init
  | e :: es => versionAfter (match e.cmd with | .version v => max init v | _ => init) es

theorem applyEntry_enabled {n n' : Node} {e : Entry} {evs : List Ev} (h : applyEntry n e = (n', evs, true)) :
    n'.enabled = (match e.cmd with | .version v => max n.enabled v | _ => n.enabled) := by
  unfold applyEntry at h
  simp only at h
  split at h
  · rename_i v hv
    split at h
    · simp at h
    · split at h
      · rename_i hlt
        simp only [Prod.mk.injEq, and_true] at h
        obtain ⟨rfl, _⟩ := h
        simp only [hv]
        omega
      · rename_i hge
        simp only [Prod.mk.injEq, and_true] at h
        obtain ⟨rfl, _⟩ := h
        simp only [hv]
        omega
  · rename_i fid arg hc
    split at h
    · simp only [Prod.mk.injEq, and_true] at h
      obtain ⟨rfl, _⟩ := h
      simp [hc]
    · simp only [Prod.mk.injEq, and_true] at h
      obtain ⟨rfl, _⟩ := h
      simp [hc]
  · rename_i hnv hnr
    simp only [Prod.mk.injEq, and_true] at h
    obtain ⟨rfl, _⟩ := h
    cases hc : e.cmd with
    | version v => exact absurd hc (hnv v)
    | regular f a => exact absurd hc (hnr f a)
    | noop => rfl
    | membership => rfl
    | other t => rfl

/-- A batch that was consumed completely leaves the enabled version `versionAfter` of its entries. -/
theorem applyBatch_enabled : ∀ (es : List Entry) (n n' : Node) (evs : List Ev),
    applyBatch n es = (n', evs) → n'.lastApplied = n.lastApplied + es.length →
    n'.enabled = versionAfter n.enabled es
  | [], n, n', evs, h, _ => by
    simp only [applyBatch, Prod.mk.injEq] at h
    obtain ⟨rfl, _⟩ := h
    rfl
  | e :: rest, n, n', evs, h, hall => by
    unfold applyBatch at h
    cases hae : applyEntry n e with
    | mk n1 r =>
      cases r with
      | mk evs1 b =>
        rw [hae] at h
        cases b with
        | true =>
          simp only at h
          cases hb : applyBatch n1 rest with
          | mk n2 evs2 =>
            rw [hb] at h
            simp only [Prod.mk.injEq] at h
            obtain ⟨rfl, _⟩ := h
            obtain ⟨_, l1, _⟩ := applyEntry_continue hae
            have := applyBatch_enabled rest n1 n2 evs2 hb (by simp only [List.length_cons] at hall; omega)
            rw [this, applyEntry_enabled hae]
            rfl
        | false =>
          simp only [Prod.mk.injEq] at h
          obtain ⟨rfl, _⟩ := h
          obtain ⟨_, l1, _⟩ := applyEntry_stop hae
          simp only [List.length_cons] at hall
          omega

/-! ## Old and new code: the same entry runs the same method -/

theorem applyEntry_ran {n : Node} {e : Entry} {i : Nat} {d : Desc} {x : Nat}
    (h : Ev.ran i d x ∈ (applyEntry n e).2.1) :
    ∃ fid, e.cmd = .regular fid x ∧ (idToMethod n.cls)[fid]? = some d ∧ i = e.idx := by
  have hcb : ∀ (subs : List (Nat × Nat)) (t : Nat) (r : Res), Ev.ran i d x ∉ fireCallbacks subs t r := by
    intro subs t r hm
    simp only [fireCallbacks, List.mem_map] at hm
    obtain ⟨s, _, hs⟩ := hm
    split at hs <;> cases hs
  unfold applyEntry at h
  simp only at h
  split at h
  · split at h
    · simp at h
    · split at h
      · simp only [List.nil_append] at h
        exact absurd h (hcb _ _ _)
      · simp only [List.cons_append, List.nil_append, List.mem_cons] at h
        rcases h with h | h
        · cases h
        · exact absurd h (hcb _ _ _)
  · rename_i fid arg hc
    split at h
    · simp only [List.cons_append, List.nil_append, List.mem_cons] at h
      rcases h with h | h
      · cases h
      · exact absurd h (hcb _ _ _)
    · rename_i d' hd
      simp only [List.cons_append, List.nil_append, List.mem_cons] at h
      rcases h with h | h
      · cases h
        exact ⟨fid, hc, hd, rfl⟩
      · exact absurd h (hcb _ _ _)
  · simp only [List.nil_append] at h
    exact absurd h (hcb _ _ _)

theorem applyEntry_ran_of_id {n : Node} {e : Entry} {fid x : Nat} {d : Desc} (hc : e.cmd = .regular fid x)
    (hd : (idToMethod n.cls)[fid]? = some d) : Ev.ran e.idx d x ∈ (applyEntry n e).2.1 := by
  unfold applyEntry
  simp only [hc, hd]
  simp

/-! ## The name table always belongs to the enabled version -/

theorem applyEntry_table {n : Node} {e : Entry} (h : n.tableVer = n.enabled) :
    (applyEntry n e).1.tableVer = (applyEntry n e).1.enabled ∧ (applyEntry n e).1.cls = n.cls := by
  unfold applyEntry
  simp only
  split
  · split
    · simp [h]
    · split <;> simp [h]
  · split <;> simp [h]
  · simp [h]

/-- The enabled version never goes down (repair D71). -/
theorem applyEntry_mono (n : Node) (e : Entry) : n.enabled ≤ (applyEntry n e).1.enabled := by
  unfold applyEntry
  simp only
  split
  · split
    · exact Nat.le_refl _
    · split
      · exact Nat.le_refl _
      · simp only; omega
  · split <;> exact Nat.le_refl _
  · exact Nat.le_refl _

theorem applyBatch_mono : ∀ (es : List Entry) (n : Node), n.enabled ≤ (applyBatch n es).1.enabled
  | [], n => Nat.le_refl _
  | e :: rest, n => by
    have h1 := applyEntry_mono n e
    unfold applyBatch
    cases hae : applyEntry n e with
    | mk n1 r =>
      cases r with
      | mk evs1 b =>
        rw [hae] at h1
        cases b with
        | true =>
          have h2 := applyBatch_mono rest n1
          simp only
          cases hb : applyBatch n1 rest with
          | mk n2 evs2 =>
            rw [hb] at h2
            exact Nat.le_trans h1 h2
        | false => exact h1

theorem step_mono (n : Node) (o : Op) : n.enabled ≤ (step n o).1.enabled := by
  cases o with
  | tick =>
    simp only [step, applyLogEntries]
    split
    · exact Nat.le_refl _
    · split
      · exact applyBatch_mono _ n
      · exact Nat.le_refl _
  | setCommit c => exact Nat.le_refl _
  | append es => exact Nat.le_refl _
  | subscribe i t cb => exact Nat.le_refl _

theorem run_mono : ∀ (ops : List Op) (n : Node), n.enabled ≤ (run n ops).1.enabled
  | [], n => Nat.le_refl _
  | o :: os, n => by
    have h1 := step_mono n o
    unfold run
    cases hs : step n o with
    | mk n1 evs1 =>
      rw [hs] at h1
      have h2 := run_mono os n1
      simp only
      cases hr : run n1 os with
      | mk n2 evs2 =>
        rw [hr] at h2
        exact Nat.le_trans h1 h2

theorem applyBatch_table : ∀ (es : List Entry) (n : Node), n.tableVer = n.enabled →
    (applyBatch n es).1.tableVer = (applyBatch n es).1.enabled ∧ (applyBatch n es).1.cls = n.cls
  | [], n, h => by simp [applyBatch, h]
  | e :: rest, n, h => by
    have h1 := applyEntry_table (e := e) h
    unfold applyBatch
    cases hae : applyEntry n e with
    | mk n1 r =>
      cases r with
      | mk evs1 b =>
        rw [hae] at h1
        cases b with
        | true =>
          have h2 := applyBatch_table rest n1 h1.1
          simp only
          cases hb : applyBatch n1 rest with
          | mk n2 evs2 =>
            rw [hb] at h2
            exact ⟨h2.1, by rw [h2.2, h1.2]⟩
        | false => exact h1

theorem step_table {n : Node} (o : Op) (h : n.tableVer = n.enabled) :
    (step n o).1.tableVer = (step n o).1.enabled ∧ (step n o).1.cls = n.cls := by
  cases o with
  | tick =>
    simp only [step, applyLogEntries]
    split
    · exact ⟨h, rfl⟩
    · split
      · exact applyBatch_table _ n h
      · exact ⟨h, rfl⟩
  | setCommit c => exact ⟨h, rfl⟩
  | append es => exact ⟨h, rfl⟩
  | subscribe i t cb => exact ⟨h, rfl⟩

theorem run_table : ∀ (ops : List Op) (n : Node), n.tableVer = n.enabled →
    (run n ops).1.tableVer = (run n ops).1.enabled ∧ (run n ops).1.cls = n.cls
  | [], n, h => ⟨h, rfl⟩
  | o :: os, n, h => by
    have h1 := step_table o h
    unfold run
    cases hs : step n o with
    | mk n1 evs1 =>
      rw [hs] at h1
      have h2 := run_table os n1 h1.1
      simp only
      cases hr : run n1 os with
      | mk n2 evs2 =>
        rw [hr] at h2
        exact ⟨h2.1, by rw [h2.2, h1.2]⟩

/-! ## A node whose enabled version is above its code applies nothing (gate D21) -/

theorem step_blocked {n : Node} (o : Op) (h : n.enabled > selfCodeVersion n.cls) :
    (step n o).1.enabled = n.enabled ∧ (step n o).1.cls = n.cls ∧ (step n o).1.lastApplied = n.lastApplied ∧
    ranIdxs (step n o).2 = [] := by
  cases o with
  | tick => simp [step, applyLogEntries, h, ranIdxs]
  | setCommit c => exact ⟨rfl, rfl, rfl, rfl⟩
  | append es => exact ⟨rfl, rfl, rfl, rfl⟩
  | subscribe i t cb => exact ⟨rfl, rfl, rfl, rfl⟩

theorem run_blocked : ∀ (ops : List Op) (n : Node), n.enabled > selfCodeVersion n.cls →
    (run n ops).1.enabled = n.enabled ∧ (run n ops).1.cls = n.cls ∧ (run n ops).1.lastApplied = n.lastApplied ∧
    ranIdxs (run n ops).2 = []
  | [], n, _ => ⟨rfl, rfl, rfl, rfl⟩
  | o :: os, n, h => by
    obtain ⟨e1, c1, l1, r1⟩ := step_blocked o h
    unfold run
    cases hs : step n o with
    | mk n1 evs1 =>
      rw [hs] at e1 c1 l1 r1
      simp only at e1 c1 l1 r1
      have h1 : n1.enabled > selfCodeVersion n1.cls := by rw [e1, c1]; exact h
      obtain ⟨e2, c2, l2, r2⟩ := run_blocked os n1 h1
      simp only
      cases hr : run n1 os with
      | mk n2 evs2 =>
        rw [hr] at e2 c2 l2 r2
        simp only at e2 c2 l2 r2
        exact ⟨by rw [e2, e1], by rw [c2, c1], by rw [l2, l1], by simp [ranIdxs_append, r1, r2]⟩

/-! ## Loading a dump answers the subscribers it covers (repair D61) -/

theorem mem_coveredWaiting {w : List (Nat × List (Nat × Nat))} {la : Nat} {p : Nat × List (Nat × Nat)} :
    p ∈ coveredWaiting w la ↔ p ∈ w ∧ p.1 ≤ la := by
  simp [coveredWaiting, List.mem_mergeSort, List.mem_filter]

theorem coveredWaiting_sorted (w : List (Nat × List (Nat × Nat))) (la : Nat) :
    (coveredWaiting w la).Pairwise (fun a b => a.1 ≤ b.1) := by
  have := List.pairwise_mergeSort (le := fun a b : Nat × List (Nat × Nat) => decide (a.1 ≤ b.1))
    (by intro a b c; simp only [decide_eq_true_eq]; omega)
    (by intro a b; simp only [Bool.or_eq_true, decide_eq_true_eq]; omega)
    (w.filter (fun p => decide (p.1 ≤ la)))
  simpa only [decide_eq_true_eq, coveredWaiting] using this

theorem ranIdxs_callbackOpen (l : List (Nat × Nat)) (a b : Nat) :
    ranIdxs (l.map (fun s => Ev.callbackOpen s.2 a b)) = [] := by
  induction l with
  | nil => rfl
  | cons x xs ih => simpa [ranIdxs] using ih

theorem ranIdxs_loadDumpEvents (n : Node) (d : Dump) (c : Bool) : ranIdxs (loadDumpEvents n d c) = [] := by
  unfold loadDumpEvents
  split
  · rfl
  · induction coveredWaiting n.waiting d.last.idx with
    | nil => rfl
    | cons p ps ih => simp [List.flatMap_cons, ranIdxs_append, ranIdxs_callbackOpen, ih]

end PSO.Versions
