import PSO.Model.Transport

/-! Lemmas about the small finite-map helpers of `PSO.Model.Transport`. -/
namespace PSO.Transport

variable {α : Type} [DecidableEq α]

theorem lookup_eraseKey_self (k : α) (m : List (α × Nat)) : lookup k (eraseKey k m) = none := by
  induction m with
  | nil => rfl
  | cons p r ih =>
    obtain ⟨k', v⟩ := p
    by_cases h : k' = k <;> simp [eraseKey, lookup, h, ih]

theorem lookup_eraseKey_ne {k k' : α} (h : k' ≠ k) (m : List (α × Nat)) :
    lookup k' (eraseKey k m) = lookup k' m := by
  induction m with
  | nil => rfl
  | cons p r ih =>
    obtain ⟨k'', v⟩ := p
    by_cases h1 : k'' = k
    · subst h1
      have : ¬ k'' = k' := fun e => h e.symm
      simp [eraseKey, lookup, ih, this]
    · by_cases h2 : k'' = k'
      · subst h2; simp [eraseKey, lookup, h1]
      · simp [eraseKey, lookup, h1, h2, ih]

theorem lookup_setKey_self (k : α) (v : Nat) (m : List (α × Nat)) : lookup k (setKey k v m) = some v := by
  simp [setKey, lookup]

theorem lookup_setKey_ne {k k' : α} (h : k' ≠ k) (v : Nat) (m : List (α × Nat)) :
    lookup k' (setKey k v m) = lookup k' m := by
  have : ¬ k = k' := fun e => h e.symm
  simp [setKey, lookup, this, lookup_eraseKey_ne h]

theorem lookup_setKey (k k' : α) (v : Nat) (m : List (α × Nat)) :
    lookup k' (setKey k v m) = if k' = k then some v else lookup k' m := by
  by_cases h : k' = k
  · subst h; simp [lookup_setKey_self]
  · simp [h, lookup_setKey_ne h]

theorem lookup_eraseKey (k k' : α) (m : List (α × Nat)) :
    lookup k' (eraseKey k m) = if k' = k then none else lookup k' m := by
  by_cases h : k' = k
  · subst h; simp [lookup_eraseKey_self]
  · simp [h, lookup_eraseKey_ne h]

theorem mem_of_lookup {k : α} {v : Nat} {m : List (α × Nat)} (h : lookup k m = some v) : (k, v) ∈ m := by
  induction m with
  | nil => simp [lookup] at h
  | cons p r ih =>
    obtain ⟨k', v'⟩ := p
    by_cases h1 : k' = k
    · simp [lookup, h1] at h; subst h1; subst h; simp
    · simp [lookup, h1] at h; exact List.mem_cons_of_mem _ (ih h)

/-- Keys occur at most once. -/
def KeysNodup (m : List (α × Nat)) : Prop := (m.map Prod.fst).Nodup

theorem mem_eraseKey {k : α} {p : α × Nat} {m : List (α × Nat)} (h : p ∈ eraseKey k m) : p ∈ m ∧ p.1 ≠ k := by
  induction m with
  | nil => simp [eraseKey] at h
  | cons q r ih =>
    obtain ⟨k', v'⟩ := q
    by_cases h1 : k' = k
    · simp [eraseKey, h1] at h
      exact ⟨List.mem_cons_of_mem _ (ih h).1, (ih h).2⟩
    · simp [eraseKey, h1] at h
      rcases h with h | h
      · subst h; exact ⟨by simp, h1⟩
      · exact ⟨List.mem_cons_of_mem _ (ih h).1, (ih h).2⟩

theorem keysNodup_eraseKey {k : α} {m : List (α × Nat)} (h : KeysNodup m) : KeysNodup (eraseKey k m) := by
  induction m with
  | nil => simpa [eraseKey] using h
  | cons q r ih =>
    obtain ⟨k', v'⟩ := q
    have hr : KeysNodup r := (List.nodup_cons.mp h).2
    have hk : k' ∉ r.map Prod.fst := (List.nodup_cons.mp h).1
    by_cases h1 : k' = k
    · simpa [eraseKey, h1] using ih hr
    · simp only [eraseKey, h1, if_false]
      refine List.nodup_cons.mpr ⟨?_, ih hr⟩
      intro hmem
      obtain ⟨p, hp, hpe⟩ := List.mem_map.mp hmem
      exact hk (List.mem_map.mpr ⟨p, (mem_eraseKey hp).1, hpe⟩)

theorem keysNodup_setKey {k : α} {v : Nat} {m : List (α × Nat)} (h : KeysNodup m) : KeysNodup (setKey k v m) := by
  refine List.nodup_cons.mpr ⟨?_, keysNodup_eraseKey h⟩
  intro hmem
  obtain ⟨p, hp, hpe⟩ := List.mem_map.mp hmem
  exact (mem_eraseKey hp).2 hpe

theorem lookup_of_mem {k : α} {v : Nat} {m : List (α × Nat)} (hn : KeysNodup m) (h : (k, v) ∈ m) :
    lookup k m = some v := by
  induction m with
  | nil => simp at h
  | cons q r ih =>
    obtain ⟨k', v'⟩ := q
    have hr : KeysNodup r := (List.nodup_cons.mp hn).2
    have hk : k' ∉ r.map Prod.fst := (List.nodup_cons.mp hn).1
    rcases List.mem_cons.mp h with h | h
    · cases h; simp [lookup]
    · have : k' ≠ k := by
        intro e; subst e
        exact hk (List.mem_map.mpr ⟨(k', v), h, rfl⟩)
      simp [lookup, this, ih hr h]

theorem connToNode_mem {c : Nat} {n : NodeId} {m : List (NodeId × Nat)} (h : connToNode c m = some n) :
    (n, c) ∈ m := by
  induction m with
  | nil => simp [connToNode] at h
  | cons q r ih =>
    obtain ⟨n', v⟩ := q
    by_cases h1 : v = c
    · simp [connToNode, h1] at h; subst h; subst h1; simp
    · simp [connToNode, h1] at h; exact List.mem_cons_of_mem _ (ih h)

theorem connToNode_none {c : Nat} {m : List (NodeId × Nat)} (h : connToNode c m = none) :
    ∀ n, (n, c) ∉ m := by
  induction m with
  | nil => simp
  | cons q r ih =>
    obtain ⟨n', v⟩ := q
    by_cases h1 : v = c
    · simp [connToNode, h1] at h
    · simp [connToNode, h1] at h
      intro n hmem
      rcases List.mem_cons.mp hmem with e | e
      · cases e; exact h1 rfl
      · exact ih h n e

/-- Under unique keys and injectivity `connToNode` is the inverse of `lookup`. -/
theorem connToNode_iff {m : List (NodeId × Nat)} (hn : KeysNodup m)
    (hinj : ∀ n1 n2 c, lookup n1 m = some c → lookup n2 m = some c → n1 = n2) (c : Nat) (n : NodeId) :
    connToNode c m = some n ↔ lookup n m = some c := by
  constructor
  · intro h; exact lookup_of_mem hn (connToNode_mem h)
  · intro h
    cases hc : connToNode c m with
    | none => exact absurd (mem_of_lookup h) (connToNode_none hc n)
    | some n' =>
      have := lookup_of_mem hn (connToNode_mem hc)
      rw [hinj n' n c this h]

theorem mem_eraseAll {a b : α} {l : List α} : b ∈ eraseAll a l ↔ b ∈ l ∧ b ≠ a := by
  simp [eraseAll]

theorem mem_insertSet {a b : α} {l : List α} : b ∈ insertSet a l ↔ b ∈ l ∨ b = a := by
  unfold insertSet
  by_cases h : a ∈ l
  · simp [h]; intro e; subst e; exact h
  · simp [h]

end PSO.Transport
