import PSO.Proofs.BridgeAbs

/-!
# Bridge, part 1: elections — `request_vote`, `response_vote`, the election-timeout branch of `_onTick`

Node-level refinement: the abstraction of the handler's result is the protocol model's node transition applied to
the abstraction of the handler's input; the handler's outputs, read as model messages, are the messages the model adds.
-/
namespace PSO.Bridge
open PSO
open PSO.NodeTick
open PSO.Raft (Role isMajority)

/-! ## outputs as model messages -/

/-- the model message(s) an output of node `n` stands for (real index ↦ position) -/
def absOut (n : Nat) : Output → List Raft.Msg
  | .requestVote dst t li lt => [Raft.Msg.reqVote t n dst (li - 1) lt]
  | .responseVote dst t => [Raft.Msg.vote t n dst]
  | _ => []

def absOuts (n : Nat) (outs : List Output) : List Raft.Msg := outs.flatMap (absOut n)

theorem absOuts_append (n : Nat) (a b : List Output) : absOuts n (a ++ b) = absOuts n a ++ absOuts n b := by
  simp [absOuts]

theorem absOuts_nil (n : Nat) : absOuts n [] = [] := rfl

theorem absOuts_setRole (n : Nat) (s : NodeState) (r : Role) : absOuts n (setRole s r).2 = [] := by
  unfold setRole
  split <;> rfl

theorem absOuts_leaderChanged (n : Nat) (s : NodeState) : absOuts n (leaderChanged s).2 = [] := by
  unfold leaderChanged absOuts
  simp only
  induction s.waitingReply with
  | nil => rfl
  | cons p rest ih => simpa [absOut] using ih

theorem absOuts_becomeLeader (n : Nat) (c : Config) (s : NodeState) (now : Nat) :
    absOuts n (becomeLeader c s now).2 = [] := by
  unfold becomeLeader
  simp only [absOuts_append, absOuts_setRole]
  split <;> rfl

/-! ## `request_vote` -/

theorem upToDate_abs {log : List Entry} (h : WFLog log) {li lt : Nat} (hli : 1 ≤ li) :
    Raft.upToDate lt (li - 1) (absLog log) = true ↔
      (¬ lt < lastTerm log ∧ ¬ (lt = lastTerm log ∧ li < lastIdx log)) := by
  unfold Raft.upToDate
  rw [lastTerm_abs, absLog_length, lastIdx_of_wfLog h]
  have : 1 ≤ log.length := List.length_pos_iff.mpr h.1
  simp only [Bool.and_eq_true, Bool.not_eq_true', decide_eq_false_iff_not, Bool.and_eq_false_iff, beq_eq_false_iff_ne]
  omega

/-- first stage of the `request_vote` handler: a higher term is adopted -/
def bumpStage (s : NodeState) (term : Nat) : NodeState × List Output :=
  if s.term < term then
    ({ s with term := term, votedFor := none, role := .follower, leader := none },
     if s.role = .follower then [] else [.stateChange s.role .follower])
  else (s, [])

/-- second stage: the grant decision -/
def voteStage (c : Config) (r1 : NodeState × List Output) (frm term li lt now rand : Nat) : NodeState × List Output :=
  if r1.1.role = .leader then r1
  else if term < r1.1.term then r1
  else if lt < lastTerm r1.1.log then r1
  else if lt = lastTerm r1.1.log ∧ li < lastIdx r1.1.log then r1
  else if r1.1.votedFor.isSome then r1
  else ({ r1.1 with votedFor := some frm, electionDeadline := now + raftTimeout c rand },
        r1.2 ++ [.responseVote frm term])

theorem onRequestVote_eq (c : Config) (s : NodeState) (frm term li lt now rand : Nat) (hs : s.self.isNone = false) :
    onRequestVote c s frm term li lt now rand = voteStage c (bumpStage s term) frm term li lt now rand := by
  unfold onRequestVote voteStage bumpStage
  simp only [hs, Bool.false_eq_true, if_false]
  by_cases hlt : s.term < term
  · simp only [if_pos hlt, setRole]
  · simp only [if_neg hlt]

theorem bumpStage_abs (n : Nat) (s : NodeState) (term : Nat) :
    absNode (bumpStage s term).1 = Raft.bumpTerm (absNode s) term ∧ absOuts n (bumpStage s term).2 = [] ∧
    (bumpStage s term).1.log = s.log := by
  unfold bumpStage Raft.bumpTerm
  by_cases hlt : s.term < term
  · have hlt' : (absNode s).term < term := hlt
    simp only [if_pos hlt, if_pos hlt']
    refine ⟨rfl, ?_, trivial⟩
    split <;> rfl
  · have hlt' : ¬ (absNode s).term < term := hlt
    simp only [if_neg hlt, if_neg hlt']
    exact ⟨trivial, rfl, trivial⟩

theorem voteStage_abs (c : Config) (r1 : NodeState × List Output) (n frm term li lt now rand : Nat)
    (hwf : WFLog r1.1.log) (hli : 1 ≤ li) (ho : absOuts n r1.2 = []) :
    absNode (voteStage c r1 frm term li lt now rand).1 =
      (if (absNode r1.1).role ≠ .leader ∧ (absNode r1.1).term ≤ term ∧
          Raft.upToDate lt (li - 1) (absNode r1.1).log = true ∧ (absNode r1.1).votedFor = none
       then { absNode r1.1 with votedFor := some frm } else absNode r1.1) ∧
    absOuts n (voteStage c r1 frm term li lt now rand).2 =
      (if (absNode r1.1).role ≠ .leader ∧ (absNode r1.1).term ≤ term ∧
          Raft.upToDate lt (li - 1) (absNode r1.1).log = true ∧ (absNode r1.1).votedFor = none
       then [Raft.Msg.vote term n frm] else []) := by
  have hup := upToDate_abs hwf (li := li) (lt := lt) hli
  have e1 : (absNode r1.1).role = r1.1.role := rfl
  have e2 : (absNode r1.1).term = r1.1.term := rfl
  have e3 : (absNode r1.1).log = absLog r1.1.log := rfl
  have e4 : (absNode r1.1).votedFor = r1.1.votedFor := rfl
  rw [e1, e2, e3, e4]
  unfold voteStage
  split
  · next h => rw [if_neg (fun g => g.1 h), if_neg (fun g => g.1 h)]; exact ⟨rfl, ho⟩
  · next h1 =>
    split
    · next h => rw [if_neg (fun g => by omega), if_neg (fun g => by omega)]; exact ⟨rfl, ho⟩
    · next h2 =>
      split
      · next h => rw [if_neg (fun g => (hup.mp g.2.2.1).1 h), if_neg (fun g => (hup.mp g.2.2.1).1 h)]; exact ⟨rfl, ho⟩
      · next h3 =>
        split
        · next h => rw [if_neg (fun g => (hup.mp g.2.2.1).2 h), if_neg (fun g => (hup.mp g.2.2.1).2 h)]; exact ⟨rfl, ho⟩
        · next h4 =>
          split
          · next h =>
            have : ¬ r1.1.votedFor = none := by
              intro e; rw [e] at h; cases h
            rw [if_neg (fun g => this g.2.2.2), if_neg (fun g => this g.2.2.2)]; exact ⟨rfl, ho⟩
          · next h5 =>
            have hv : r1.1.votedFor = none := by
              cases hv : r1.1.votedFor with
              | none => rfl
              | some x => rw [hv] at h5; exact absurd rfl h5
            have g : r1.1.role ≠ .leader ∧ r1.1.term ≤ term ∧ Raft.upToDate lt (li - 1) (absLog r1.1.log) = true ∧
                r1.1.votedFor = none := ⟨h1, by omega, hup.mpr ⟨h3, h4⟩, hv⟩
            rw [if_pos g, if_pos g]
            refine ⟨rfl, ?_⟩
            rw [absOuts_append, ho]
            rfl

/-- **`request_vote` refines `recvReqVote`** (node level).  For a voter whose log is well formed and a request
that carries a real last-log index (`≥ 1`): the abstraction of the handler's result is `voteNode` of the
abstraction (same `bumpTerm`, same grant condition), and the handler emits `response_vote` exactly when the
model emits `vote`. -/
theorem onRequestVote_abs (c : Config) (s : NodeState) (n frm term li lt now rand : Nat)
    (hself : s.self.isSome = true) (hwf : WFLog s.log) (hli : 1 ≤ li) :
    absNode (onRequestVote c s frm term li lt now rand).1 = (voteNode (absNode s) term frm (li - 1) lt).1 ∧
    absOuts n (onRequestVote c s frm term li lt now rand).2 =
      (if (voteNode (absNode s) term frm (li - 1) lt).2 then [Raft.Msg.vote term n frm] else []) := by
  have hs : s.self.isNone = false := by
    cases h : s.self with
    | none => rw [h] at hself; cases hself
    | some x => rfl
  rw [onRequestVote_eq c s frm term li lt now rand hs]
  obtain ⟨hb1, hb2, hb3⟩ := bumpStage_abs n s term
  obtain ⟨hv1, hv2⟩ := voteStage_abs c (bumpStage s term) n frm term li lt now rand (by rw [hb3]; exact hwf) hli hb2
  rw [hv1, hv2, hb1]
  unfold voteNode
  simp only
  split <;> exact ⟨rfl, rfl⟩

/-! ## `__onBecomeLeader` -/

theorem mget_foldl_mset_none (v : Nat) (nodes : List Nat) : ∀ (m : AMap) (j : Nat), j ∉ nodes → mget m j = none →
    mget (nodes.foldl (fun m n => mset m n v) m) j = none := by
  induction nodes with
  | nil => intro m j _ h; exact h
  | cons a rest ih =>
    intro m j hj h
    simp only [List.foldl_cons]
    apply ih
    · exact fun e => hj (List.mem_cons_of_mem _ e)
    · have : j ≠ a := fun e => hj (e ▸ List.mem_cons_self ..)
      rw [mget_mset_ne _ _ _ _ this]
      exact h

/-- **`__onBecomeLeader` is the node part of `PSO.Raft.becomeLeader`**: role leader, the no-op of the current term
appended, every match position 0. -/
theorem becomeLeader_abs (c : Config) (s : NodeState) (now : Nat) (hk : KeysTracked s) :
    absNode (becomeLeader c s now).1 = leaderNode (absNode s) := by
  apply nodeSt_ext
  · rfl
  · rfl
  · rfl
  · rfl
  · show absLog (s.log ++ [⟨.noop, lastIdx s.log + 1, s.term⟩]) = absLog s.log ++ [⟨s.term, 0⟩]
    rw [absLog_append]
    rfl
  · rfl
  · rfl
  · show absMatch ((tracked s).foldl (fun m n => mset m n 0) s.matchIndex) = fun _ => 0
    funext j
    unfold absMatch
    rw [mgetD_foldl_mset_zero]
    intro hj
    unfold mgetD
    rw [hk j hj]
    rfl

theorem becomeLeader_log_eq (c : Config) (s : NodeState) (now : Nat) :
    (becomeLeader c s now).1.log = s.log ++ [⟨.noop, lastIdx s.log + 1, s.term⟩] := rfl

theorem becomeLeader_wfLog (c : Config) (s : NodeState) (now : Nat) (h : WFLog s.log) :
    WFLog (becomeLeader c s now).1.log := by
  rw [becomeLeader_log_eq]
  exact wfLog_append h _ _

theorem becomeLeader_tracked (c : Config) (s : NodeState) (now : Nat) :
    tracked (becomeLeader c s now).1 = tracked s := rfl

theorem becomeLeader_keysTracked (c : Config) (s : NodeState) (now : Nat) (hk : KeysTracked s) :
    KeysTracked (becomeLeader c s now).1 := by
  intro j hj
  rw [becomeLeader_tracked] at hj
  show mget ((tracked s).foldl (fun m n => mset m n 0) s.matchIndex) j = none
  exact mget_foldl_mset_none 0 _ _ _ hj (hk j hj)

/-! ## `response_vote` -/

/-- **`response_vote` refines `recvVote`** (node level): a candidate counts a vote of its own term; with a
majority of `others.length + 1` voters it becomes leader exactly as in the protocol model.  No model message is
emitted. -/
theorem onResponseVote_abs (c : Config) (s : NodeState) (n term now : Nat) (hk : KeysTracked s) :
    absNode (onResponseVote c s term now).1 = countVoteNode (s.others.length + 1) (absNode s) term ∧
    absOuts n (onResponseVote c s term now).2 = [] := by
  unfold onResponseVote countVoteNode
  have e1 : (absNode s).role = s.role := rfl
  have e2 : (absNode s).term = s.term := rfl
  rw [e1, e2]
  by_cases hv : s.role = .candidate ∧ term = s.term
  · simp only [if_pos hv]
    by_cases hmaj : isMajority (s.others.length + 1) (s.votes + 1) = true
    · have hmaj' : isMajority (s.others.length + 1) ((absNode s).votes + 1) = true := hmaj
      simp only [if_pos hmaj, if_pos hmaj']
      refine ⟨?_, absOuts_becomeLeader n c _ now⟩
      rw [becomeLeader_abs c _ now (by exact hk)]
      rfl
    · have hmaj' : ¬ isMajority (s.others.length + 1) ((absNode s).votes + 1) = true := hmaj
      simp only [if_neg hmaj, if_neg hmaj']
      exact ⟨rfl, rfl⟩
  · simp only [if_neg hv]
    exact ⟨trivial, rfl⟩

theorem onResponseVote_wfLog (c : Config) (s : NodeState) (term now : Nat) (h : WFLog s.log) :
    WFLog (onResponseVote c s term now).1.log := by
  unfold onResponseVote
  split
  · simp only
    split
    · exact becomeLeader_wfLog c _ now h
    · exact h
  · exact h

/-! ## the election-timeout branch of `_onTick` -/

/-- the guard of the election-timeout branch -/
def ElectionFires (s : NodeState) (now : Nat) : Prop :=
  s.role ≠ .leader ∧ s.electionDeadline < now ∧ connectedToAnyone s = true

theorem electionPhase_idle (c : Config) (s : NodeState) (now rand : Nat) (h : ¬ ElectionFires s now) :
    electionPhase c s now rand = (s, []) := by
  unfold electionPhase
  split
  · rfl
  · split
    · rfl
    · next hr =>
      split
      · next hd => exact absurd ⟨hr, hd.1, hd.2⟩ h
      · rfl

/-- **The election-timeout branch refines `timeout`** (node level): term + 1, vote for self, one vote, candidate —
and leader at once when one vote is a majority; the `request_vote` outputs are the model's `reqVote` messages to
`others` (last position = `log.length − 1`, last term of the log). -/
theorem electionPhase_abs (c : Config) (s : NodeState) (n now rand : Nat) (hself : s.self = some n)
    (hwf : WFLog s.log) (hk : KeysTracked s) (hf : ElectionFires s now) :
    absNode (electionPhase c s now rand).1 = timeoutNode (s.others.length + 1) n (absNode s) ∧
    absOuts n (electionPhase c s now rand).2 =
      s.others.map (fun d => Raft.Msg.reqVote ((absNode s).term + 1) n d ((absNode s).log.length - 1)
        (Raft.lastTerm (absNode s).log)) := by
  obtain ⟨hr, hd, hc⟩ := hf
  have hreq : absOuts n (s.others.map (fun d => Output.requestVote d (s.term + 1) (lastIdx s.log) (lastTerm s.log))) =
      s.others.map (fun d => Raft.Msg.reqVote ((absNode s).term + 1) n d ((absNode s).log.length - 1)
        (Raft.lastTerm (absNode s).log)) := by
    have e3 : (absNode s).log = absLog s.log := rfl
    rw [e3, lastTerm_abs, absLog_length, ← lastIdx_of_wfLog hwf]
    unfold absOuts
    induction s.others with
    | nil => rfl
    | cons a rest ih => simp only [List.map_cons, List.flatMap_cons, ih]; rfl
  unfold electionPhase timeoutNode
  simp only [hself, if_neg hr, if_pos (And.intro hd hc), setRole, leaderChanged]
  by_cases hmaj : isMajority (s.others.length + 1) 1 = true
  · simp only [if_pos hmaj]
    refine ⟨?_, ?_⟩
    · rw [becomeLeader_abs c _ now (by exact hk)]
      rfl
    · simp only [absOuts_append, absOuts_becomeLeader, List.append_nil]
      rw [hreq]
      have h1 : absOuts n (if s.role = Role.candidate then [] else [Output.stateChange s.role Role.candidate]) = [] := by
        split <;> rfl
      have h2 := absOuts_leaderChanged n s
      simp only [leaderChanged] at h2
      rw [h1, h2]
      simp
  · simp only [if_neg hmaj]
    refine ⟨rfl, ?_⟩
    simp only [absOuts_append]
    rw [hreq]
    have h1 : absOuts n (if s.role = Role.candidate then [] else [Output.stateChange s.role Role.candidate]) = [] := by
      split <;> rfl
    have h2 := absOuts_leaderChanged n s
    simp only [leaderChanged] at h2
    rw [h1, h2]
    simp

theorem electionPhase_wfLog (c : Config) (s : NodeState) (now rand : Nat) (h : WFLog s.log) :
    WFLog (electionPhase c s now rand).1.log := by
  rcases electionPhase_log' c s now rand with e | e
  · rw [e]; exact h
  · obtain ⟨t, e⟩ := e
    rw [e]; exact wfLog_append h _ _

end PSO.Bridge
