import PSO.Proofs.QueueInv

/-! Every atomic action of `PSO.Queue.Sys` preserves `Inv`. -/
namespace PSO.Queue

theorem tok_cbRef (mode : Mode) (c c' : CallId) :
    tok (mode.cbRef c) c' = if mode.hasCb = true ∧ c' = c then 1 else 0 := by
  by_cases h : c' = c
  · subst h; cases mode <;> simp [Mode.cbRef, Mode.hasCb, tok, CbRef.isFor]
  · have h' : ¬ c = c' := fun e => h e.symm
    cases mode <;> simp [Mode.cbRef, Mode.hasCb, tok, CbRef.isFor, h, h']

theorem hasCb_of_planAt {s : Sys} {c : CallId} {cmd : Packed} {mode : Mode}
    (h : s.planAt c = some (.replicate cmd mode)) : s.hasCb c = mode.hasCb ∧ s.isRepl c = true := by
  simp [Sys.hasCb, Sys.isRepl, Sys.modeAt, h]

theorem not_repl_of_planAt {s : Sys} {c : CallId} {a : List Val} {k : Kw}
    (h : s.planAt c = some (.localRun a k)) : s.hasCb c = false ∧ s.isRepl c = false := by
  simp [Sys.hasCb, Sys.isRepl, Sys.modeAt, h]

theorem inv_putStep {s s' : Sys} {t : Nat} (hi : Inv s) (hph : (s.thr t).phase = .built)
    (h : s.putStep t = some s') : Inv s' := by
  obtain ⟨c, cmd, mode, hcur⟩ := hi.builtOk t (by rw [hph]; simp)
  obtain ⟨hc, hplan⟩ := current_eq hcur
  unfold Sys.putStep at h
  rw [hcur] at h
  simp only [Option.some.injEq] at h
  have hk : PutKind ⟨.call c, mode.cbRef c⟩ (.enq c) (.full c) := Or.inl ⟨c, rfl, rfl, rfl⟩
  have hpair : ∀ c', (mode.cbRef c).isFor c' = true → CmdRef.call c = .call c' := by
    intro c' hc'
    cases mode <;> simp [Mode.cbRef, CbRef.isFor] at hc' <;> rw [hc']
  obtain ⟨f1, f2, f3, f4⟩ := applyCommand_frame s ⟨.call c, mode.cbRef c⟩ (.enq c) (.full c)
  have hTF := applyCommand_TF hi.toInvTF hk hpair
  have htok := applyCommand_tokSum s ⟨.call c, mode.cbRef c⟩ hk
  have henq := applyCommand_enqSum s ⟨.call c, mode.cbRef c⟩ hk
  have hret := applyCommand_RetJ ⟨.call c, mode.cbRef c⟩ hk hi.retJust
  have hmono := applyCommand_mono s ⟨.call c, mode.cbRef c⟩ (.enq c) (.full c)
  have hfull := fun c' => applyCommand_full (s := s) hk c'
  generalize s.applyCommand ⟨.call c, mode.cbRef c⟩ (.enq c) (.full c) = s1 at *
  -- the thread afterwards
  obtain ⟨th', hthr, hprog, hq, hp, hh, ha, hr, hcn, hnext⟩ :
      ∃ th', s'.thr = upd s.thr t th' ∧ th'.prog = (s.thr t).prog ∧ s'.q = s1.q ∧ s'.pend = s1.pend ∧
        s'.hist = s1.hist ∧ s'.ars = s1.ars ∧ s'.resultOf = s1.resultOf ∧ s'.counter = s1.counter ∧
        ((th'.next = (s.thr t).next ∧ th'.phase = .waiting ∧ ∃ tmo, mode = .sync tmo) ∨
         (th'.next = (s.thr t).next + 1 ∧ th'.phase = .start)) := by
    subst h
    cases mode with
    | sync tmo => exact ⟨{ s.thr t with phase := .waiting }, by simp [Sys.afterPut, f1], rfl, rfl, rfl, rfl, rfl, rfl, rfl, Or.inl ⟨rfl, rfl, tmo, rfl⟩⟩
    | nocb => exact ⟨(s.thr t).advance, by simp [Sys.afterPut, f1], rfl, rfl, rfl, rfl, rfl, rfl, rfl, Or.inr ⟨rfl, rfl⟩⟩
    | user => exact ⟨(s.thr t).advance, by simp [Sys.afterPut, f1], rfl, rfl, rfl, rfl, rfl, rfl, rfl, Or.inr ⟨rfl, rfl⟩⟩
  obtain ⟨g1, g2, g3, g4⟩ := static_of_thr' hthr hprog
  obtain ⟨hcb, hrepl⟩ := hasCb_of_planAt hplan
  have hnd : ¬ s.putDone c := by
    subst hc
    simp [Sys.putDone, hph]
  have hpd : ∀ c', s'.putDone c' ↔ (s.putDone c' ∨ c' = c) := by
    intro c'
    rw [putDone_of_thr hthr c']
    subst hc
    by_cases hct : c'.t = t
    · simp only [hct, ↓reduceIte]
      have : c' = ⟨t, (s.thr t).next⟩ ↔ c'.k = (s.thr t).next := by
        cases c'; simp at hct ⊢; simp [hct]
      rw [this]
      unfold Sys.putDone
      rw [hct, hph]
      rcases hnext with ⟨n1, n2, _⟩ | ⟨n1, n2⟩
      · rw [n1, n2]; simp
      · rw [n1, n2]; simp; omega
    · simp only [hct, ↓reduceIte]
      have : c' ≠ ⟨t, (s.thr t).next⟩ := by
        intro e; apply hct; rw [e]
      simp [this]
  refine { toInvTF := InvTF_congr hq hp hh ha hr hcn hTF, token := ?_, enq1 := ?_, retJust := ?_,
           fullFired := ?_, builtOk := ?_, waitOk := ?_ }
  · intro c'
    rw [tokSum_congr hq hp hh c', htok c', hi.token c', tok_cbRef, g4]
    by_cases hcc : c' = c
    · subst hcc
      have : ¬ s.putDone c' := hnd
      simp [this, hpd, hcb]
    · simp [hcc, hpd]
  · intro c'
    rw [enqSum_congr hh c', henq c', hi.enq1 c', g3]
    by_cases hcc : c' = c
    · subst hcc
      have : ¬ s.putDone c' := hnd
      simp [this, hpd, hrepl]
    · have : ¬ (Ev.enq c = Ev.enq c') := by simp; exact fun e => hcc e.symm
      simp [hcc, hpd, this]
  · rw [hh, g1]; exact hret
  · intro c' hf hcb'
    rw [hh] at hf ⊢
    rw [g4] at hcb'
    rcases hfull c' hf with h0 | ⟨h1, h2⟩
    · exact hmono _ (hi.fullFired c' h0 hcb')
    · simp only [Ev.full.injEq] at h1
      subst h1
      apply h2
      rw [hcb] at hcb'
      cases mode <;> simp [Mode.hasCb] at hcb' <;> simp [Mode.cbRef, CbRef.isFor]
  · intro t' hne
    rw [current_of_thr hthr t']
    by_cases htt : t' = t
    · subst htt
      rw [hthr] at hne
      simp only [upd_same] at hne
      rcases hnext with ⟨n1, n2, tmo, rfl⟩ | ⟨n1, n2⟩
      · simp only [↓reduceIte]
        refine ⟨c, cmd, .sync tmo, ?_⟩
        rw [← hcur]
        unfold Sys.current Thread.cur
        rw [hprog, n1]
      · exact absurd n2 hne
    · simp only [htt, ↓reduceIte]
      apply hi.builtOk t'
      rw [hthr, upd_other _ _ htt] at hne
      exact hne
  · intro t' hw
    rw [current_of_thr hthr t']
    by_cases htt : t' = t
    · subst htt
      rw [hthr] at hw
      simp only [upd_same] at hw
      rcases hnext with ⟨n1, n2, tmo, rfl⟩ | ⟨n1, n2⟩
      · simp only [↓reduceIte]
        refine ⟨c, cmd, tmo, ?_⟩
        rw [← hcur]
        unfold Sys.current Thread.cur
        rw [hprog, n1]
      · rw [n2] at hw; exact absurd hw (by simp)
    · simp only [htt, ↓reduceIte]
      apply hi.waitOk t'
      rw [hthr, upd_other _ _ htt] at hw
      exact hw

theorem isRepl_of_hasCb {s : Sys} {c : CallId} (h : s.hasCb c = true) : s.isRepl c = true := by
  unfold Sys.hasCb at h
  unfold Sys.isRepl
  split at h
  · rename_i m hm; simp [hm]
  · simp at h

/-- a step that only moves one thread and logs at most a `localRun` / `ret` event -/
theorem inv_thread {s s' : Sys} {t : Nat} {th' : Thread} {x : List Ev} (hi : Inv s)
    (hthr : s'.thr = upd s.thr t th') (hprog : th'.prog = (s.thr t).prog)
    (hq : s'.q = s.q) (hp : s'.pend = s.pend) (ha : s'.ars = s.ars) (hr : s'.resultOf = s.resultOf)
    (hcn : s'.counter = s.counter) (hh : s'.hist = x ++ s.hist)
    (hx : x = [] ∨ (∃ c, x = [.localRun c]) ∨ ∃ c o, x = [.ret c o])
    (hpd : ∀ c, s.isRepl c = true → (s'.putDone c ↔ s.putDone c))
    (hret : RetJ s.planAt s'.hist)
    (hb : ∀ t, (s'.thr t).phase ≠ .start → ∃ c cmd mode, s'.current t = some (c, .replicate cmd mode))
    (hw : ∀ t, (s'.thr t).phase = .waiting → ∃ c cmd tmo, s'.current t = some (c, .replicate cmd (.sync tmo))) :
    Inv s' := by
  obtain ⟨g1, g2, g3, g4⟩ := static_of_thr' hthr hprog
  have hTF : InvTF s' := by
    constructor
    · rw [hh, hq]
      rcases hx with rfl | ⟨c, rfl⟩ | ⟨c, o, rfl⟩ <;> simpa [enqSeq, deqSeq] using hi.fifo
    · rw [hq]; exact hi.pairQ
    · rw [hp]; exact hi.pairP
    · intro m
      rw [hh]
      have := hi.disp m
      rcases hx with rfl | ⟨c, rfl⟩ | ⟨c, o, rfl⟩ <;>
        simpa [List.countP_cons, Ev.isDeq, Ev.isApp, Ev.isFwd, Ev.isDrop] using this
    · rw [hh, ha]; exact AresOk_mono (by intro y hy; simp [hy]) hi.ares
    · rw [hh, hr]
      rcases hx with rfl | ⟨c, rfl⟩ | ⟨c, o, rfl⟩
      · simpa using hi.firedGood
      · exact FiredGood_cons_other (by intro c r e; simp) hi.firedGood
      · exact FiredGood_cons_other (by intro c r e; simp) hi.firedGood
    · rw [hp, hcn]; exact hi.keys
  have htok : ∀ c, s'.tokSum c = s.tokSum c := by
    intro c
    unfold Sys.tokSum
    rw [hq, hp, hh]
    rcases hx with rfl | ⟨c, rfl⟩ | ⟨c, o, rfl⟩ <;> simp [Ev.isFired]
  have henq : ∀ c, s'.enqSum c = s.enqSum c := by
    intro c
    unfold Sys.enqSum
    rw [hh]
    rcases hx with rfl | ⟨c, rfl⟩ | ⟨c, o, rfl⟩ <;> simp [Ev.isEnq, Ev.isFull]
  refine { toInvTF := hTF, token := ?_, enq1 := ?_, retJust := ?_, fullFired := ?_, builtOk := hb, waitOk := hw }
  · intro c
    rw [htok c, hi.token c, g4]
    by_cases hcb : s.hasCb c = true
    · simp [hcb, hpd c (isRepl_of_hasCb hcb)]
    · simp [hcb]
  · intro c
    rw [henq c, hi.enq1 c, g3]
    by_cases hcb : s.isRepl c = true
    · simp [hcb, hpd c hcb]
    · simp [hcb]
  · rw [g1]; exact hret
  · intro c hf hcb
    rw [hh] at hf ⊢
    rw [g4] at hcb
    have hf' : Ev.full c ∈ s.hist := by
      rcases hx with rfl | ⟨c0, rfl⟩ | ⟨c0, o, rfl⟩ <;> simpa using hf
    simp [hi.fullFired c hf' hcb]

/-- `builtOk` / `waitOk` after thread `t` moved to `start`, or to `built` inside the same replicated call -/
theorem bw_of_thr {s s' : Sys} {t : Nat} {th' : Thread} (hi : Inv s)
    (hthr : s'.thr = upd s.thr t th') (hprog : th'.prog = (s.thr t).prog)
    (hcase : th'.phase = .start ∨ (th'.phase = .built ∧ th'.next = (s.thr t).next ∧
      ∃ c cmd mode, s.current t = some (c, .replicate cmd mode))) :
    (∀ t, (s'.thr t).phase ≠ .start → ∃ c cmd mode, s'.current t = some (c, .replicate cmd mode)) ∧
    (∀ t, (s'.thr t).phase = .waiting → ∃ c cmd tmo, s'.current t = some (c, .replicate cmd (.sync tmo))) := by
  constructor
  · intro t' hne
    rw [current_of_thr hthr t']
    by_cases htt : t' = t
    · subst htt
      rw [hthr] at hne
      simp only [upd_same] at hne
      rcases hcase with h1 | ⟨h1, h2, c, cmd, mode, hcur⟩
      · exact absurd h1 hne
      · simp only [↓reduceIte]
        refine ⟨c, cmd, mode, ?_⟩
        rw [← hcur]
        unfold Sys.current Thread.cur
        rw [hprog, h2]
    · simp only [htt, ↓reduceIte]
      apply hi.builtOk t'
      rw [hthr, upd_other _ _ htt] at hne
      exact hne
  · intro t' hw
    by_cases htt : t' = t
    · subst htt
      rw [hthr] at hw
      simp only [upd_same] at hw
      rcases hcase with h1 | ⟨h1, _⟩ <;> rw [h1] at hw <;> exact absurd hw (by simp)
    · rw [current_of_thr hthr t']
      simp only [htt, ↓reduceIte]
      apply hi.waitOk t'
      rw [hthr, upd_other _ _ htt] at hw
      exact hw

theorem putDone_upd_other {s s' : Sys} {t : Nat} {th' : Thread} (hthr : s'.thr = upd s.thr t th')
    {c : CallId} (hc : c.t ≠ t) : s'.putDone c ↔ s.putDone c := by
  rw [putDone_of_thr hthr c]; simp [hc]

theorem inv_startStep {s s' : Sys} {t : Nat} (hi : Inv s) (hph : (s.thr t).phase = .start)
    (h : s.startStep t = some s') : Inv s' := by
  unfold Sys.startStep at h
  split at h
  · simp at h
  · -- local run
    rename_i c a k hcur
    simp only [Option.some.injEq] at h
    subst h
    obtain ⟨hc, hplan⟩ := current_eq hcur
    obtain ⟨b1, b2⟩ := bw_of_thr (s' := { s with thr := upd s.thr t (s.thr t).advance, hist := Ev.localRun c :: s.hist })
      (th' := (s.thr t).advance) hi rfl rfl (Or.inl rfl)
    refine inv_thread (x := [.localRun c]) (th' := (s.thr t).advance) hi rfl rfl rfl rfl rfl rfl rfl rfl
      (Or.inr (Or.inl ⟨c, rfl⟩)) ?_ ?_ b1 b2
    · intro c' hrep
      by_cases hct : c'.t = t
      · rw [putDone_of_thr (s' := { s with thr := upd s.thr t (s.thr t).advance, hist := Ev.localRun c :: s.hist }) rfl c']
        simp only [hct, ↓reduceIte, Thread.advance]
        unfold Sys.putDone
        rw [hct, hph]
        have hne : c'.k ≠ (s.thr t).next := by
          intro e
          have : c' = c := by rw [hc]; cases c'; simp at hct e ⊢; exact ⟨hct, e⟩
          rw [this, (not_repl_of_planAt hplan).2] at hrep
          simp at hrep
        simp; omega
      · exact putDone_upd_other rfl hct
    · exact RetJ_cons_other (by intro c o; simp) hi.retJust
  · -- replicated call: go to `built`
    rename_i c cmd mode hcur
    simp only [Option.some.injEq] at h
    subst h
    obtain ⟨b1, b2⟩ := bw_of_thr (s' := { s with thr := upd s.thr t { s.thr t with phase := .built } })
      (th' := { s.thr t with phase := .built }) hi rfl rfl (Or.inr ⟨rfl, rfl, c, cmd, mode, hcur⟩)
    refine inv_thread (x := []) (th' := { s.thr t with phase := .built }) hi rfl rfl rfl rfl rfl rfl rfl rfl
      (Or.inl rfl) ?_ ?_ b1 b2
    · intro c' _
      by_cases hct : c'.t = t
      · rw [putDone_of_thr (s' := { s with thr := upd s.thr t { s.thr t with phase := .built } }) rfl c']
        simp only [hct, ↓reduceIte]
        unfold Sys.putDone
        rw [hct, hph]
        simp
      · exact putDone_upd_other rfl hct
    · exact hi.retJust

/-- a waiting thread leaves its call (result read, or timeout) -/
theorem inv_leaveWait {s : Sys} {t : Nat} {c : CallId} {o : Outcome} (hi : Inv s)
    (hph : (s.thr t).phase = .waiting)
    (hj : (o = .timeout ∧ ∃ cmd tmo, s.planAt c = some (.replicate cmd (.sync tmo)) ∧ tmo.isSome = true) ∨
      ∃ r e, Ev.fired c r e ∈ s.hist ∧ o = outcomeOf r e) :
    Inv { s with thr := upd s.thr t (s.thr t).advance, hist := .ret c o :: s.hist } := by
  obtain ⟨b1, b2⟩ := bw_of_thr (s' := { s with thr := upd s.thr t (s.thr t).advance, hist := Ev.ret c o :: s.hist })
    (th' := (s.thr t).advance) hi rfl rfl (Or.inl rfl)
  refine inv_thread (x := [.ret c o]) (th' := (s.thr t).advance) hi rfl rfl rfl rfl rfl rfl rfl rfl
    (Or.inr (Or.inr ⟨c, o, rfl⟩)) ?_ ?_ b1 b2
  · intro c' _
    by_cases hct : c'.t = t
    · rw [putDone_of_thr (s' := { s with thr := upd s.thr t (s.thr t).advance, hist := Ev.ret c o :: s.hist }) rfl c']
      simp only [hct, ↓reduceIte, Thread.advance]
      unfold Sys.putDone
      rw [hct, hph]
      simp; omega
    · exact putDone_upd_other rfl hct
  · exact RetJ_cons_ret hi.retJust hj

theorem inv_waitStep {s s' : Sys} {t : Nat} (hi : Inv s) (hph : (s.thr t).phase = .waiting)
    (h : s.waitStep t = some s') : Inv s' := by
  unfold Sys.waitStep at h
  split at h
  · rename_i c cmd tmo hcur
    simp only at h
    split at h
    · rename_i hflag
      simp only [Option.some.injEq] at h
      subst h
      obtain ⟨r, e, hars, hmem⟩ := hi.ares c hflag
      apply inv_leaveWait hi hph
      refine Or.inr ⟨r, e, hmem, ?_⟩
      rw [hars]
      rfl
    · simp at h
  · simp at h

theorem inv_timeoutStep {s s' : Sys} {t : Nat} (hi : Inv s) (h : s.timeoutStep t = some s') : Inv s' := by
  unfold Sys.timeoutStep at h
  split at h
  · rename_i hph
    split at h
    · rename_i c cmd tmo hcur
      split at h
      · rename_i hc
        simp only [Option.some.injEq] at h
        subst h
        obtain ⟨_, hplan⟩ := current_eq hcur
        simp only [Bool.and_eq_true] at hc
        exact inv_leaveWait hi hph (Or.inl ⟨rfl, cmd, tmo, hplan, hc.1⟩)
      · simp at h
    · simp at h
  · simp at h

theorem inv_callStep {s s' : Sys} {t : Nat} (hi : Inv s) (h : s.callStep t = some s') : Inv s' := by
  unfold Sys.callStep at h
  split at h
  · rename_i hph; exact inv_startStep hi hph h
  · rename_i hph; exact inv_putStep hi hph h
  · rename_i hph; exact inv_waitStep hi hph h

end PSO.Queue
