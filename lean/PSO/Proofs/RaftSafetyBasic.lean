import PSO.Proofs.RaftLogs

/-! # Lemmas shared by the preservation proofs of `InvS` -/
namespace PSO.Raft

theorem lastTerm_eq_termAt (l : List Entry) : lastTerm l = termAt l (l.length - 1) := by
  unfold lastTerm termAt
  rw [List.getLast?_eq_getElem?]

/-- Terms along a node log are non-decreasing. -/
theorem log_sorted {N : Nat} {s : State} (h : InvL N s) (n j k : Nat) (hjk : j ≤ k)
    (hk : k < (s.nodes n).log.length) : termAt (s.nodes n).log j ≤ termAt (s.nodes n).log k := by
  have hag := h.log_l2 n k hk
  rw [hag.termAt hjk]
  have hlt := hag.length_lt hk
  generalize PSO.Raft.termAt (s.nodes n).log k = u at *
  have hj : j < (s.g.termLog u).length := by omega
  unfold termAt
  rw [List.getElem?_eq_getElem hj]
  exact h.tl_terms _ _ (List.getElem_mem _)

/-- Terms along a term log are non-decreasing. -/
theorem tl_sorted {N : Nat} {s : State} (h : InvL N s) (t j k : Nat) (hjk : j ≤ k)
    (hk : k < (s.g.termLog t).length) : termAt (s.g.termLog t) j ≤ termAt (s.g.termLog t) k := by
  have hag := h.tl_l2 t k hk
  rw [hag.termAt hjk]
  have hlt := hag.length_lt hk
  generalize PSO.Raft.termAt (s.g.termLog t) k = u at *
  have hj : j < (s.g.termLog u).length := by omega
  unfold termAt
  rw [List.getElem?_eq_getElem hj]
  exact h.tl_terms _ _ (List.getElem_mem _)

theorem agree_append_left' {a b : List Entry} {i : Nat} (h : Agree a b i) (hi : i < a.length) (ys : List Entry) :
    Agree (a ++ ys) b i := (agree_append_left hi ys).trans h

theorem chosen_not_blocked {N : Nat} {s : State} {t i : Nat} (hc : Chosen N s t i) (hb : Blocked N s t i) :
    False := by
  obtain ⟨_, Q, hQ, hq⟩ := hc
  obtain ⟨B, hB, hbb⟩ := hb
  obtain ⟨x, hx1, hx2⟩ := quorum_inter hQ hB
  have := hq x hx1
  have := (hbb x hx2).2
  omega

theorem blocked_mono {N : Nat} {s s' : State} {t i : Nat}
    (hterm : ∀ b, (s.nodes b).term ≤ (s'.nodes b).term)
    (hack : ∀ b, t < (s.nodes b).term → s'.g.acked t b = s.g.acked t b)
    (h : Blocked N s t i) : Blocked N s' t i := by
  obtain ⟨B, hB, hb⟩ := h
  refine ⟨B, hB, fun b hbB => ?_⟩
  obtain ⟨h1, h2⟩ := hb b hbB
  exact ⟨Nat.lt_of_lt_of_le h1 (hterm b), by rw [hack b h1]; exact h2⟩

theorem ownPos_mono {g g' : Ghost} {t i : Nat} (h : OwnPos g t i)
    (htl : ∃ ys, g'.termLog t = g.termLog t ++ ys) : OwnPos g' t i := by
  obtain ⟨ys, hys⟩ := htl
  obtain ⟨h1, h2, h3⟩ := h
  refine ⟨h1, by rw [hys]; simp; omega, ?_⟩
  rw [hys, termAt_append_left h2]; exact h3

theorem chosen_mono {N : Nat} {s s' : State} {t i : Nat}
    (htl : ∃ ys, s'.g.termLog t = s.g.termLog t ++ ys)
    (hack : ∀ q, s.g.acked t q ≤ s'.g.acked t q)
    (h : Chosen N s t i) : Chosen N s' t i := by
  obtain ⟨ho, Q, hQ, hq⟩ := h
  exact ⟨ownPos_mono ho htl, Q, hQ, fun q hqQ => Nat.le_trans (hq q hqQ) (hack q)⟩

theorem cmt_mono {N : Nat} {s s' : State} {b b' : Nat} {P : List Entry}
    (htl : ∀ t, ∃ ys, s'.g.termLog t = s.g.termLog t ++ ys)
    (hack : ∀ t q, s.g.acked t q ≤ s'.g.acked t q) (hb : b ≤ b')
    (h : Cmt N s b P) : Cmt N s' b' P := by
  rcases h with h | ⟨t, i, ht, hc, hp, hl⟩
  · exact Or.inl h
  · refine Or.inr ⟨t, i, by omega, chosen_mono (htl t) (hack t) hc, ?_, hl⟩
    obtain ⟨ys, hys⟩ := htl t
    rw [hys]; exact hp.trans (List.prefix_append _ _)

theorem cmt_prefix {N : Nat} {s : State} {b : Nat} {P P' : List Entry} (h : Cmt N s b P)
    (hp : P' <+: P) (hne : P' ≠ []) (h0 : P[0]? = some sentinel) : Cmt N s b P' := by
  rcases h with h | ⟨t, i, ht, hc, hpp, hl⟩
  · left
    subst h
    obtain ⟨tl, htl⟩ := hp
    cases P' with
    | nil => exact absurd rfl hne
    | cons x xs =>
      simp at htl
      obtain ⟨rfl, h2⟩ := htl
      have : xs = [] := by
        cases xs with
        | nil => rfl
        | cons y ys => simp at h2
      rw [this]
  · exact Or.inr ⟨t, i, ht, hc, hp.trans hpp, Nat.le_trans hp.length_le hl⟩

/-- No cut when the log already agrees with the leader's log beyond the merged segment. -/
theorem merge_eq_of_agree (T : List Entry) :
    ∀ (es log : List Entry) (prev m : Nat), Agree log T m → prev + es.length ≤ m → m < log.length →
      es <+: T.drop (prev + 1) → mergeEntries log prev es = log := by
  intro es
  induction es with
  | nil => intro log prev m _ _ _ _; simp [mergeEntries]
  | cons e rest ih =>
    intro log prev m hag hle hm hpre
    obtain ⟨tl, htl⟩ := hpre
    have hT : T.drop (prev + 1) = e :: (rest ++ tl) := by rw [← htl]; simp
    have hTe : T[prev + 1]? = some e := by
      have := congrArg (fun l => l[0]?) hT
      simpa [List.getElem?_drop] using this
    have hle' : prev + 1 ≤ m := by simp at hle; omega
    have hlog : log[prev + 1]? = some e := by rw [hag.getElem? hle']; exact hTe
    have hTrest : rest <+: T.drop (prev + 1 + 1) := by
      refine ⟨tl, ?_⟩
      have : T.drop (prev + 1 + 1) = (T.drop (prev + 1)).drop 1 := by rw [List.drop_drop]
      rw [this, hT]; simp
    unfold mergeEntries
    rw [hlog]; simp only [if_true]
    exact ih log (prev + 1) m hag (by simp at hle; omega) hm hTrest

theorem tl_ne_of_ldr {N : Nat} {s : State} (h : InvL N s) {t l : Nat} (hl : s.g.leaderOf t = some l) :
    s.g.termLog t ≠ [] := by
  intro hnil
  by_cases ht : t = 0
  · subst ht; exact h.ldr_pos l hl
  · have := (h.tl_ldr t (by omega)).mp hnil; rw [this] at hl; cases hl

/-- Electors of a later term have left every earlier term. -/
theorem electors_term {N : Nat} {s : State} (he : InvE N s) (hl : InvL N s) {t v : Nat}
    (htl : s.g.termLog t ≠ []) (ht : 0 < t) (hv : v ∈ s.g.electors t) : t ≤ (s.nodes v).term := by
  cases hld : s.g.leaderOf t with
  | none => exact absurd ((hl.tl_ldr t ht).mpr hld) htl
  | some l =>
    obtain ⟨_, hqv, _, _⟩ := he.el_quorum t l hld
    exact he.voted_le _ _ _ (hqv v hv)

theorem electors_quorum {N : Nat} {s : State} (he : InvE N s) (hl : InvL N s) {t : Nat}
    (htl : s.g.termLog t ≠ []) (ht : 0 < t) : IsQuorum N (s.g.electors t) := by
  cases hld : s.g.leaderOf t with
  | none => exact absurd ((hl.tl_ldr t ht).mpr hld) htl
  | some l => exact (he.el_quorum t l hld).1

/-- A committed prefix is a prefix of the log of every term at or above its witness bound. -/
theorem cmt_prefix_tl {N : Nat} {s : State} (hl : InvL N s) (hs : InvS N s) {b t : Nat} {P : List Entry}
    (hc : Cmt N s b P) (hbt : b ≤ t) (htl : s.g.termLog t ≠ []) : P <+: s.g.termLog t := by
  rcases hc with hc | ⟨t0, i0, ht0, hch, hp, hlen⟩
  · subst hc
    have h0 := hl.tl_sent t htl
    cases hT : s.g.termLog t with
    | nil => exact absurd hT htl
    | cons x xs => rw [hT] at h0; simp at h0; subst h0; exact ⟨xs, rfl⟩
  · by_cases heq : t0 = t
    · subst heq; exact hp
    · have hlt : t0 < t := by omega
      rcases hs.Y t0 t i0 hlt htl hch.1 with hag | hb
      · -- P = (termLog t0).take |P| = (termLog t).take |P|
        have h1 : P = (s.g.termLog t0).take P.length := by
          obtain ⟨tl, htl'⟩ := hp; rw [← htl']; simp
        have hag' : (s.g.termLog t).take P.length = (s.g.termLog t0).take P.length := by
          cases hP : P.length with
          | zero => simp
          | succ k =>
            have := hag.mono (show k ≤ i0 by omega)
            exact this
        rw [h1, ← hag']; exact List.take_prefix _ _
      · exact absurd hb (fun hb => chosen_not_blocked hch hb)

/-- A node's committed prefix agrees with the log of any term at or above the node's term. -/
theorem commit_agree_tl {N : Nat} {s : State} (hl : InvL N s) (hs : InvS N s) (n t : Nat)
    (ht : (s.nodes n).term ≤ t) (htl : s.g.termLog t ≠ []) :
    Agree (s.nodes n).log (s.g.termLog t) (s.nodes n).commit := by
  have hp := cmt_prefix_tl hl hs (hs.C1 n) ht htl
  obtain ⟨tl, htl'⟩ := hp
  unfold Agree
  have hlen : ((s.nodes n).log.take ((s.nodes n).commit + 1)).length = (s.nodes n).commit + 1 := by
    have := hs.cm_lt n; simp; omega
  rw [← htl', List.take_append_of_le_length (by omega), List.take_take]; simp

end PSO.Raft
