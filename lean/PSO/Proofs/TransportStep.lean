import PSO.Proofs.TransportInv

/-! Preservation of `Inv` by the handshake, the poll events, `send`, `addNode`, `dropNode`, `tick`: every `step`. -/
namespace PSO.Transport

/-- Registering object `c` (which is in the handshake, CONNECTED) as node `n`, the previous object of `n` (if any)
being DISCONNECTED. -/
theorem Inv.register {s : St} (h : Inv s) {c : Nat} {k : Conn} {n : NodeId} (hk : s.conn? c = some k)
    (hcb : k.cb = .handshake) (hst : k.state = .connected)
    (hold : ∀ old ko, lookup n s.reg = some old → s.conn? old = some ko → ko.state = .disconnected)
    (hmem : ∀ a, n = .tcp a → a ∈ s.nodes) :
    Inv { ({ s with reg := setKey n c s.reg }).setConn c { k with cb := .deliver n } with
          view := insertSet n s.view } := by
  have hlt := conn?_lt hk
  have hc : ∀ c1, St.conn? { ({ s with reg := setKey n c s.reg }).setConn c { k with cb := .deliver n } with
      view := insertSet n s.view } c1 = if c = c1 then some { k with cb := .deliver n } else s.conn? c1 := by
    intro c1
    simp only [St.conn?, St.setConn, List.getElem?_set]
    by_cases e : c = c1
    · simp [e, e ▸ hlt]
    · simp [e]
  have hne : ∀ n1 c1, lookup n1 s.reg = some c1 → c1 ≠ c := by
    intro n1 c1 hl e
    subst e
    obtain ⟨k1, hk1, hcb1⟩ := h.regCb n1 c1 hl
    rw [hk] at hk1; cases hk1
    rw [hcb] at hcb1; cases hcb1
  refine ⟨keysNodup_setKey h.nodup, ?_, ?_, ?_, ?_, ?_⟩
  · intro n1 c1 hl
    have hl' : lookup n1 (setKey n c s.reg) = some c1 := hl
    rw [lookup_setKey] at hl'
    by_cases e : n1 = n
    · simp [e] at hl'; subst hl'; subst e
      exact ⟨{ k with cb := .deliver n1 }, by rw [hc]; simp, rfl⟩
    · simp [e] at hl'
      obtain ⟨k1, hk1, hcb1⟩ := h.regCb n1 c1 hl'
      have := hne n1 c1 hl'
      exact ⟨k1, by rw [hc]; simp [Ne.symm this, hk1], hcb1⟩
  · intro c1 k1 n1 hk1 hcb1 hst1
    show lookup n1 (setKey n c s.reg) = some c1
    rw [hc] at hk1
    rw [lookup_setKey]
    by_cases e : c = c1
    · subst e
      simp at hk1; subst hk1
      simp at hcb1; subst hcb1
      simp
    · simp [e] at hk1
      have hl := h.live c1 k1 n1 hk1 hcb1 hst1
      by_cases en : n1 = n
      · subst en
        exact absurd (hold c1 k1 hl hk1) hst1
      · simp [en, hl]
  · intro a c1 hl
    have hl' : lookup (NodeId.tcp a) (setKey n c s.reg) = some c1 := hl
    rw [lookup_setKey] at hl'
    by_cases e : NodeId.tcp a = n
    · exact hmem a e.symm
    · simp [e] at hl'; exact h.regMem a c1 hl'
  · intro n1 hn1
    have hn1' : n1 ∈ insertSet n s.view := hn1
    show ∃ c1 k1, lookup n1 (setKey n c s.reg) = some c1 ∧ _ ∧ _
    by_cases e : n1 = n
    · subst e
      exact ⟨c, { k with cb := .deliver n1 }, lookup_setKey_self _ _ _, by rw [hc]; simp, hst⟩
    · rcases mem_insertSet.mp hn1' with hv | hv
      · obtain ⟨c1, k1, hl, hk1, hs1⟩ := h.viewOk n1 hv
        have := hne n1 c1 hl
        exact ⟨c1, k1, by rw [lookup_setKey_ne e]; exact hl, by rw [hc]; simp [Ne.symm this, hk1], hs1⟩
      · exact absurd hv e
  · intro a ha hsc
    show ∃ c1, lookup (NodeId.tcp a) (setKey n c s.reg) = some c1
    obtain ⟨c1, hl⟩ := h.dialReg a ha hsc
    rw [lookup_setKey]
    by_cases e : NodeId.tcp a = n
    · exact ⟨c, by simp [e]⟩
    · exact ⟨c1, by simp [e, hl]⟩

/-- What the handshake leaves of the object that is shaking hands: either it is registered, CONNECTED, same `gen`,
or it was disconnected (larger `gen`), or nothing happened to it. -/
def Fresh (g c : Nat) (s : St) : Prop :=
  ∀ k, s.conn? c = some k → g ≤ k.gen ∧ (k.gen = g → k.state = .connected)

theorem Inv.hsRegister {s : St} (h : Inv s) {c : Nat} {k : Conn} (n : NodeId) (ro : Bool) (hk : s.conn? c = some k)
    (hcb : k.cb = .handshake) (hst : k.state = .connected) (hmem : ∀ a, n = .tcp a → a ∈ s.nodes) :
    Inv (s.hsRegister c n ro) ∧ Fresh k.gen c (s.hsRegister c n ro) := by
  unfold St.hsRegister
  simp only
  -- s1: unknown erased
  have h1 : Inv { s with unknown := eraseAll c s.unknown } := h.frame rfl rfl rfl rfl (fun _ hn => hn)
  have hk1 : St.conn? { s with unknown := eraseAll c s.unknown } c = some k := hk
  -- s2: previous object closed
  have key : ∀ s2 : St, Inv s2 → s2.conn? c = some k → s2.reg = s.reg → s2.nodes = s.nodes →
      (∀ old ko, lookup n s2.reg = some old → s2.conn? old = some ko → ko.state = .disconnected) →
      Inv (({ ({ s2 with reg := setKey n c s2.reg }).setConn c { k with cb := .deliver n } with
              view := insertSet n s2.view }).emit (if ro then .roConn n else .nodeConn (some n))) ∧
      Fresh k.gen c (({ ({ s2 with reg := setKey n c s2.reg }).setConn c { k with cb := .deliver n } with
              view := insertSet n s2.view }).emit (if ro then .roConn n else .nodeConn (some n))) := by
    intro s2 hI hk2 hr hn hold
    refine ⟨(hI.register hk2 hcb hst hold (fun a e => by rw [hn]; exact hmem a e)).emit _, ?_⟩
    intro k' hk'
    have hlt := conn?_lt hk2
    have : St.conn? (({ ({ s2 with reg := setKey n c s2.reg }).setConn c { k with cb := .deliver n } with
        view := insertSet n s2.view }).emit (if ro then .roConn n else .nodeConn (some n))) c =
        some { k with cb := .deliver n } := by
      simp [St.conn?, St.emit, St.setConn, List.getElem?_set, hlt]
    rw [this] at hk'; cases hk'
    exact ⟨Nat.le_refl _, fun _ => hst⟩
  cases hl : lookup n s.reg with
  | none =>
    have hl' : lookup n (St.reg { s with unknown := eraseAll c s.unknown }) = none := hl
    simp only [hl']
    have hc' : St.conn? { ({ s with unknown := eraseAll c s.unknown } : St) with
        reg := setKey n c s.reg } c = some k := hk
    simp only [hc']
    exact key _ h1 hk1 rfl rfl (by intro old ko ho; rw [hl'] at ho; cases ho)
  | some old =>
    have hl' : lookup n (St.reg { s with unknown := eraseAll c s.unknown }) = some old := hl
    simp only [hl']
    have hne : c ≠ old := by
      intro e; subst e
      obtain ⟨k0, hk0, hcb0⟩ := h.regCb n c hl
      rw [hk] at hk0; cases hk0; rw [hcb] at hcb0; cases hcb0
    have h2 := h1.connDisconnect old (some n) false
    have hc2 : (St.connDisconnect { s with unknown := eraseAll c s.unknown } old (some n) false).conn? c = some k := by
      rw [conn?_connDisconnect_other h1.nodup hne]; exact hk1
    obtain ⟨e1, e2, _⟩ := sameCfg_connDisconnect { s with unknown := eraseAll c s.unknown } old (some n) false
    have hold : ∀ o ko, lookup n (St.connDisconnect { s with unknown := eraseAll c s.unknown } old (some n) false).reg
        = some o → (St.connDisconnect { s with unknown := eraseAll c s.unknown } old (some n) false).conn? o = some ko →
        ko.state = .disconnected := by
      intro o ko ho hko
      rw [e1] at ho
      rw [hl'] at ho; cases ho
      exact connDisconnect_prevented h1.nodup (fun n' hn' => h1.inj n' n _ hn' hl') false ko hko
    have hc' : St.conn? { (St.connDisconnect { s with unknown := eraseAll c s.unknown } old (some n) false) with
        reg := setKey n c (St.connDisconnect { s with unknown := eraseAll c s.unknown } old (some n) false).reg } c
        = some k := hc2
    simp only [hc']
    exact key _ h2 hc2 e1 e2 hold

theorem fresh_of_conns_eq {g c : Nat} {s s' : St} (h : Fresh g c s) (e : s'.conns = s.conns) : Fresh g c s' := by
  intro k hk
  have : s.conn? c = some k := by simpa [St.conn?, e] using hk
  exact h k this

/-- Disconnecting the object itself (it is CONNECTED, `gen = g`) makes `Fresh g` hold vacuously. -/
theorem fresh_connDisconnect_self {s : St} {c : Nat} {k : Conn} (hk : s.conn? c = some k)
    (hst : k.state = .connected) (p : Option NodeId) (f : Bool) : Fresh k.gen c (s.connDisconnect c p f) := by
  intro k' hk'
  obtain ⟨k1, hk1, hg, _⟩ := conn?_connDisconnect_self hk (by rw [hst]; simp) p f
  rw [hk1] at hk'; cases hk'
  exact ⟨by omega, fun e => by omega⟩

theorem Inv.hsReject {s : St} (h : Inv s) {c : Nat} {k : Conn} (hk : s.conn? c = some k)
    (hst : k.state = .connected) : Inv (s.hsReject c) ∧ Fresh k.gen c (s.hsReject c) := by
  unfold St.hsReject
  simp only
  exact ⟨(h.connDisconnect c none false).frame rfl rfl rfl rfl (fun _ hn => hn),
    fresh_of_conns_eq (fresh_connDisconnect_self hk hst none false) rfl⟩

theorem Inv.onIncomingMessage {s : St} (h : Inv s) {c : Nat} {k : Conn} (hk : s.conn? c = some k)
    (hcb : k.cb = .handshake) (hst : k.state = .connected) (m : Msg) :
    Inv (s.onIncomingMessage c m).1 ∧ Fresh k.gen c (s.onIncomingMessage c m).1 := by
  have hfresh : Fresh k.gen c s := by
    intro k' hk'; rw [hk] at hk'; cases hk'; exact ⟨Nat.le_refl _, fun _ => hst⟩
  unfold St.onIncomingMessage
  cases m with
  | util known replyFail =>
    simp only
    cases known with
    | false => exact h.hsReject hk hst
    | true =>
      simp only [if_true]
      cases replyFail with
      | false => exact ⟨h.emit _, fresh_of_conns_eq hfresh rfl⟩
      | true =>
        simp only [if_true]
        exact ⟨(h.emit _).connDisconnect c none false,
          fresh_connDisconnect_self (s := s.emit .utility) hk hst none false⟩
  | unhashable x => exact h.hsReject hk hst
  | addr a =>
    simp only
    by_cases ha : a ∈ s.nodes
    · simp only [ha, if_true]
      exact h.hsRegister (.tcp a) false hk hcb hst (fun a' e => by cases e; exact ha)
    · simp only [ha, if_false]
      exact h.hsReject hk hst
  | hashable x => exact h.hsReject hk hst
  | readonly =>
    simp only
    have h1 : Inv { s with roNodes := insertSet s.roCounter s.roNodes, roCounter := s.roCounter + 1 } :=
      h.frame rfl rfl rfl rfl (fun _ hn => hn)
    exact h1.hsRegister (.ro s.roCounter) true hk hcb hst (fun a' e => by cases e)

theorem Inv.processMsgs (c g : Nat) (msgs : List Msg) : ∀ {s : St}, Inv s → Fresh g c s →
    Inv (s.processMsgs c g msgs) := by
  induction msgs with
  | nil => intro s h _; exact h
  | cons m ms ih =>
    intro s h hf
    unfold St.processMsgs
    cases hk : s.conn? c with
    | none => exact h
    | some k =>
      simp only
      by_cases hg : k.gen = g
      · have hst := (hf k hk).2 hg
        simp only [hg, bne_self_eq_false, Bool.false_eq_true, if_false]
        cases hcb : k.cb with
        | deliver n =>
          simp only
          exact ih (h.emit _) (fresh_of_conns_eq hf rfl)
        | handshake =>
          simp only
          obtain ⟨hI, hF⟩ := h.onIncomingMessage hk hcb hst m
          rw [hg] at hF
          cases hr : (s.onIncomingMessage c m) with
          | mk s1 raised =>
            rw [hr] at hI hF
            simp only
            cases raised with
            | true => simpa using hI
            | false => simpa using ih hI hF
      · have : (k.gen != g) = true := by simpa using hg
        simp only [this, if_true]
        exact h

/-- Adding to the view a node whose registered object is CONNECTED. -/
theorem Inv.viewInsert {s : St} (h : Inv s) {n : NodeId} {c : Nat} {k : Conn} (hl : lookup n s.reg = some c)
    (hk : s.conn? c = some k) (hst : k.state = .connected) : Inv { s with view := insertSet n s.view } := by
  refine h.transfer rfl rfl rfl (fun c k hk => ⟨k, hk⟩) (fun c k' hk' => ⟨k', hk', rfl, fun hs => Or.inl hs⟩) ?_
  intro n1 hn1
  rcases mem_insertSet.mp hn1 with hv | hv
  · exact h.viewOk n1 hv
  · subst hv; exact ⟨c, k, hl, hk, hst⟩

theorem Inv.onOutgoingConnected {s : St} (h : Inv s) (c : Nat) (sf f : Bool) :
    Inv (s.onOutgoingConnected c sf f) := by
  unfold St.onOutgoingConnected
  simp only
  have h1 : Inv (if sf = true then s.connDisconnect c none f else s) := by
    cases sf
    · simpa using h
    · simpa using h.connDisconnect c none f
  generalize (if sf = true then s.connDisconnect c none f else s) = s1 at h1 ⊢
  cases hk : s1.conn? c with
  | none => exact h1
  | some k =>
    simp only
    by_cases hst : k.state = .connected
    · have : (k.state != CState.connected) = false := by simp [hst]
      simp only [this, Bool.false_eq_true, if_false]
      cases hn : connToNode c s1.reg with
      | none => exact h1.emit _
      | some n =>
        simp only
        exact (h1.viewInsert ((h1.c2n c n).mp hn) hk hst).emit _
    · have : (k.state != CState.connected) = true := by simpa using hst
      simp only [this, if_true]
      exact h1

theorem Inv.pollOk {s : St} (h : Inv s) (c : Nat) (sf f : Bool) : Inv (s.pollOk c sf f) := by
  unfold St.pollOk
  cases hk : s.conn? c with
  | none => exact h
  | some k =>
    simp only
    cases hst : k.state with
    | disconnected => exact h
    | connecting =>
      simp only
      by_cases ht : s.timedOut k = true
      · simp only [ht, if_true]; exact h.connDisconnect c none f
      · simp only [ht, Bool.false_eq_true, if_false]
        have h1 : Inv (s.setConn c { k with state := .connected, lastRead := s.now }) :=
          h.setConn hk rfl (fun _ => Or.inl (by rw [hst]; simp)) (fun _ _ _ => rfl)
        generalize s.setConn c { k with state := .connected, lastRead := s.now } = s1 at h1 ⊢
        by_cases hd : k.dialled = true
        · simp only [hd, if_true]; exact h1.onOutgoingConnected c sf f
        · simp only [hd, Bool.false_eq_true, if_false]; exact h1
    | connected =>
      simp only
      by_cases ht : s.timedOut k = true
      · simp only [ht, if_true]; exact h.connDisconnect c none f
      · simp only [ht, Bool.false_eq_true, if_false]; exact h

theorem Inv.recv {s : St} (h : Inv s) (c : Nat) (msgs : List Msg) (f : Bool) : Inv (s.recv c msgs f) := by
  unfold St.recv
  cases hk : s.conn? c with
  | none => exact h
  | some k =>
    simp only
    cases hst : k.state with
    | disconnected => exact h
    | connecting => exact h.pollOk c false f
    | connected =>
      simp only
      by_cases ht : s.timedOut k = true
      · simp only [ht, if_true]; exact h.connDisconnect c none f
      · simp only [ht, Bool.false_eq_true, if_false]
        have h1 : Inv (s.setConn c { k with state := .connected, lastRead := s.now }) :=
          h.setConn hk rfl (fun _ => Or.inl (by rw [hst]; simp)) (fun _ _ _ => rfl)
        refine Inv.processMsgs c k.gen msgs h1 ?_
        intro k' hk'
        rw [conn?_setConn] at hk'
        simp [conn?_lt hk] at hk'
        subst hk'
        exact ⟨Nat.le_refl _, fun _ => rfl⟩

theorem Inv.send {s : St} (h : Inv s) (n : NodeId) (sf f : Bool) : Inv (s.send n sf f) := by
  unfold St.send
  cases hr : s.regConn n with
  | none => exact h.emit _
  | some ck =>
    obtain ⟨c, k⟩ := ck
    simp only
    by_cases hst : (k.state != CState.connected) = true
    · simp only [hst, if_true]; exact h.emit _
    · simp only [hst, Bool.false_eq_true, if_false]
      have h1 : Inv (if s.timedOut k = true then s.connDisconnect c none f
          else if sf = true then s.connDisconnect c none f else s) := by
        by_cases ht : s.timedOut k = true
        · simp only [ht, if_true]; exact h.connDisconnect c none f
        · simp only [ht, Bool.false_eq_true, if_false]
          cases sf
          · simpa using h
          · simpa using h.connDisconnect c none f
      exact h1.emit _

theorem Inv.tick {s : St} (h : Inv s) (fl : List Nat) : Inv (s.tick fl) := by
  unfold St.tick
  generalize s.nodes = l
  induction l generalizing s with
  | nil => exact h
  | cons a r ih => exact ih (h.connectSingle a false _)

/-- A new connection object is appended; nothing else that the invariant reads changes. -/
theorem Inv.pushConn {s s' : St} (h : Inv s) (k : Conn)
    (hk : ∀ n, k.cb = .deliver n → k.state = .disconnected)
    (hconns : s'.conns = s.conns ++ [k]) (hreg : s'.reg = s.reg) (hnodes : s'.nodes = s.nodes)
    (hself : s'.selfAddr = s.selfAddr) (hview : s'.view = s.view) : Inv s' := by
  have hc : ∀ c1, s'.conn? c1 = if c1 < s.conns.length then s.conn? c1 else
      if c1 = s.conns.length then some k else none := by
    intro c1
    simp only [St.conn?, hconns, List.getElem?_append]
    by_cases e : c1 < s.conns.length
    · simp [e]
    · simp only [e, if_false]
      by_cases e2 : c1 = s.conns.length
      · simp [e2]
      · simp only [e2, if_false]
        cases hh : c1 - s.conns.length with
        | zero => omega
        | succ m => simp
  refine ⟨by rw [hreg]; exact h.nodup, ?_, ?_, ?_, ?_, ?_⟩
  · intro n c hl
    rw [hreg] at hl
    obtain ⟨k1, hk1, hcb⟩ := h.regCb n c hl
    exact ⟨k1, by rw [hc]; simp [conn?_lt hk1, hk1], hcb⟩
  · intro c k1 n hk1 hcb hst
    rw [hreg]
    rw [hc] at hk1
    by_cases e : c < s.conns.length
    · simp [e] at hk1; exact h.live c k1 n hk1 hcb hst
    · simp only [e, if_false] at hk1
      by_cases e2 : c = s.conns.length
      · simp [e2] at hk1; subst hk1; exact absurd (hk n hcb) hst
      · simp [e2] at hk1
  · intro a c hl; rw [hreg] at hl; rw [hnodes]; exact h.regMem a c hl
  · intro n hn
    rw [hview] at hn
    obtain ⟨c, k1, hl, hk1, hst⟩ := h.viewOk n hn
    exact ⟨c, k1, by rw [hreg]; exact hl, by rw [hc]; simp [conn?_lt hk1, hk1], hst⟩
  · intro a ha hsc
    rw [hreg]; rw [hnodes] at ha
    exact h.dialReg a ha (by simpa [St.shouldConnect, hself] using hsc)

theorem Inv.accept {s : St} (h : Inv s) : Inv s.accept := by
  unfold St.accept
  exact h.pushConn _ (by intro n hcb; simp at hcb) rfl rfl rfl rfl rfl

/-- The object `addNode` creates. -/
def dialConn (now a : Nat) : Conn :=
  { state := .disconnected, lastRead := now, dialled := true, cb := .deliver (.tcp a), gen := 0 }

/-- Register a (new, DISCONNECTED) object for a new member. -/
theorem Inv.addReg {s : St} (h : Inv s) {a c : Nat} {k : Conn} (ha : a ∉ s.nodes)
    (hk : s.conn? c = some k) (hcb : k.cb = .deliver (.tcp a)) :
    Inv { s with nodes := insertSet a s.nodes, reg := setKey (.tcp a) c s.reg } := by
  have hnone : lookup (NodeId.tcp a) s.reg = none := by
    cases hl : lookup (NodeId.tcp a) s.reg with
    | none => rfl
    | some c => exact absurd (h.regMem a c hl) ha
  refine ⟨keysNodup_setKey h.nodup, ?_, ?_, ?_, ?_, ?_⟩
  · intro n c1 hl
    have hl' : lookup n (setKey (NodeId.tcp a) c s.reg) = some c1 := hl
    rw [lookup_setKey] at hl'
    by_cases e : n = NodeId.tcp a
    · simp [e] at hl'; subst hl'; subst e; exact ⟨k, hk, hcb⟩
    · simp [e] at hl'; exact h.regCb n c1 hl'
  · intro c1 k1 n hk1 hcb1 hst
    show lookup n (setKey (NodeId.tcp a) c s.reg) = some c1
    have hl := h.live c1 k1 n hk1 hcb1 hst
    rw [lookup_setKey]
    by_cases e : n = NodeId.tcp a
    · subst e; rw [hnone] at hl; cases hl
    · simp [e, hl]
  · intro a1 c1 hl
    have hl' : lookup (NodeId.tcp a1) (setKey (NodeId.tcp a) c s.reg) = some c1 := hl
    show a1 ∈ insertSet a s.nodes
    rw [lookup_setKey] at hl'
    by_cases e : NodeId.tcp a1 = NodeId.tcp a
    · cases e; exact mem_insertSet.mpr (Or.inr rfl)
    · simp [e] at hl'; exact mem_insertSet.mpr (Or.inl (h.regMem a1 c1 hl'))
  · intro n hn
    obtain ⟨c1, k1, hl, hk1, hst⟩ := h.viewOk n hn
    have e : n ≠ NodeId.tcp a := by intro e; subst e; rw [hnone] at hl; cases hl
    exact ⟨c1, k1, by show lookup n (setKey _ _ s.reg) = some c1; rw [lookup_setKey_ne e]; exact hl, hk1, hst⟩
  · intro a1 ha1 hs1
    show ∃ c1, lookup (NodeId.tcp a1) (setKey (NodeId.tcp a) c s.reg) = some c1
    rw [lookup_setKey]
    by_cases e : NodeId.tcp a1 = NodeId.tcp a
    · exact ⟨c, by simp [e]⟩
    · have ha1' : a1 ∈ insertSet a s.nodes := ha1
      rcases mem_insertSet.mp ha1' with hm | hm
      · obtain ⟨c1, hc1⟩ := h.dialReg a1 hm (by simpa [St.shouldConnect] using hs1)
        exact ⟨c1, by simp [e, hc1]⟩
      · subst hm; exact absurd rfl e

/-- `addNode` of an address that is not a member at that moment. -/
theorem Inv.addNode {s : St} (h : Inv s) {a : Nat} (ha : a ∉ s.nodes) : Inv (s.addNode a) := by
  unfold St.addNode
  simp only
  by_cases hsc : St.shouldConnect { s with nodes := insertSet a s.nodes } a false = true
  · simp only [hsc, if_true]
    have h1 : Inv { s with conns := s.conns ++ [dialConn s.now a] } :=
      h.pushConn (dialConn s.now a) (fun _ _ => rfl) rfl rfl rfl rfl rfl
    have hk1 : St.conn? { s with conns := s.conns ++ [dialConn s.now a] } s.conns.length =
        some (dialConn s.now a) := by simp [St.conn?]
    exact h1.addReg (a := a) ha hk1 rfl
  · simp only [hsc, Bool.false_eq_true, if_false]
    refine ⟨h.nodup, h.regCb, h.live, ?_, h.viewOk, ?_⟩
    · intro a1 c hl
      exact mem_insertSet.mpr (Or.inl (h.regMem a1 c hl))
    · intro a1 ha1 hs1
      have ha1' : a1 ∈ insertSet a s.nodes := ha1
      rcases mem_insertSet.mp ha1' with hm | hm
      · exact h.dialReg a1 hm (by simpa [St.shouldConnect] using hs1)
      · subst hm; exact absurd hs1 hsc

theorem eraseKey_of_lookup_none {α : Type} [DecidableEq α] {k : α} {m : List (α × Nat)}
    (h : lookup k m = none) : eraseKey k m = m := by
  induction m with
  | nil => rfl
  | cons p r ih =>
    obtain ⟨k', v⟩ := p
    by_cases e : k' = k
    · simp [lookup, e] at h
    · simp [lookup, e] at h
      simp [eraseKey, e, ih h]

/-- Forget node `n` (registry entry and membership) once its registered object, if any, is DISCONNECTED. -/
theorem Inv.dropCore {s : St} (h : Inv s) (n : NodeId) (nodes' : List Nat)
    (hdead : ∀ c k, lookup n s.reg = some c → s.conn? c = some k → k.state = .disconnected)
    (hsub : ∀ a, a ∈ nodes' → a ∈ s.nodes)
    (hkeep : ∀ a, a ∈ s.nodes → NodeId.tcp a ≠ n → a ∈ nodes')
    (hgone : ∀ a, n = NodeId.tcp a → a ∉ nodes')
    {s' : St} (hreg : s'.reg = eraseKey n s.reg) (hnodes : s'.nodes = nodes') (hself : s'.selfAddr = s.selfAddr)
    (hconns : s'.conns = s.conns) (hview : s'.view = s.view) : Inv s' := by
  have hc : ∀ c, s'.conn? c = s.conn? c := by intro c; simp [St.conn?, hconns]
  refine ⟨by rw [hreg]; exact keysNodup_eraseKey h.nodup, ?_, ?_, ?_, ?_, ?_⟩
  · intro n1 c1 hl1
    rw [hreg, lookup_eraseKey] at hl1
    by_cases e : n1 = n
    · simp [e] at hl1
    · simp [e] at hl1; rw [hc]; exact h.regCb n1 c1 hl1
  · intro c1 k1 n1 hk1 hcb hst
    rw [hc] at hk1
    rw [hreg, lookup_eraseKey]
    have hl1 := h.live c1 k1 n1 hk1 hcb hst
    by_cases e : n1 = n
    · subst e; exact absurd (hdead c1 k1 hl1 hk1) hst
    · simp [e, hl1]
  · intro a1 c1 hl1
    rw [hreg, lookup_eraseKey] at hl1
    by_cases e : NodeId.tcp a1 = n
    · simp [e] at hl1
    · simp [e] at hl1; rw [hnodes]; exact hkeep a1 (h.regMem a1 c1 hl1) e
  · intro n1 hn1
    rw [hview] at hn1
    obtain ⟨c1, k1, hl1, hk1, hst⟩ := h.viewOk n1 hn1
    have e : n1 ≠ n := by
      intro e; subst e
      have := hdead c1 k1 hl1 hk1; rw [this] at hst; cases hst
    exact ⟨c1, k1, by rw [hreg, lookup_eraseKey_ne e]; exact hl1, by rw [hc]; exact hk1, hst⟩
  · intro a1 ha1 hs1
    rw [hnodes] at ha1
    have e : NodeId.tcp a1 ≠ n := fun e => hgone a1 e.symm ha1
    obtain ⟨c1, hc1⟩ := h.dialReg a1 (hsub a1 ha1) (by simpa [St.shouldConnect, hself] using hs1)
    exact ⟨c1, by rw [hreg, lookup_eraseKey_ne e]; exact hc1⟩

theorem Inv.dropNode {s : St} (h : Inv s) (n : NodeId) : Inv (s.dropNode n) := by
  unfold St.dropNode
  simp only
  cases hl : lookup n s.reg with
  | none =>
    simp only
    have hreg : s.reg = eraseKey n s.reg := (eraseKey_of_lookup_none hl).symm
    cases n with
    | tcp a =>
      simp only
      refine h.dropCore (.tcp a) (eraseAll a s.nodes) (by intro c k hc; rw [hl] at hc; cases hc)
        (fun a1 h1 => (mem_eraseAll.mp h1).1) ?_ ?_ hreg rfl rfl rfl rfl
      · intro a1 h1 hne; exact mem_eraseAll.mpr ⟨h1, fun e => hne (by rw [e])⟩
      · intro a1 e; cases e; intro hm; exact (mem_eraseAll.mp hm).2 rfl
    | ro r =>
      simp only
      exact h.dropCore (.ro r) s.nodes (by intro c k hc; rw [hl] at hc; cases hc)
        (fun _ h1 => h1) (fun _ h1 _ => h1) (by intro a1 e; cases e) hreg rfl rfl rfl rfl
  | some c =>
    simp only
    have h2 := h.connDisconnect c (some n) false
    obtain ⟨e1, e2, e3, _⟩ := sameCfg_connDisconnect s c (some n) false
    have hdead := connDisconnect_prevented h.nodup (fun n' hn' => h.inj n' n _ hn' hl) false
    generalize s.connDisconnect c (some n) false = s2 at h2 e1 e2 e3 hdead
    have hdead2 : ∀ c1 k1, lookup n s2.reg = some c1 → s2.conn? c1 = some k1 → k1.state = .disconnected := by
      intro c1 k1 hl1 hk1
      rw [e1, hl] at hl1; cases hl1; exact hdead k1 hk1
    cases n with
    | tcp a =>
      simp only
      refine h2.dropCore (.tcp a) (eraseAll a s2.nodes) hdead2
        (fun a1 h1 => (mem_eraseAll.mp h1).1) ?_ ?_ rfl rfl rfl rfl rfl
      · intro a1 h1 hne; exact mem_eraseAll.mpr ⟨h1, fun e => hne (by rw [e])⟩
      · intro a1 e; cases e; intro hm; exact (mem_eraseAll.mp hm).2 rfl
    | ro r =>
      simp only
      exact h2.dropCore (.ro r) s2.nodes hdead2
        (fun _ h1 => h1) (fun _ h1 _ => h1) (by intro a1 e; cases e) rfl rfl rfl rfl rfl

/-- Events the invariant is proved for: `addNode a` only for an address that is not a member at that moment
(what SyncObj guarantees: it checks `newNode in self.__otherNodes` first).  Everything else is unrestricted. -/
def Admissible (s : St) : Event → Prop
  | .addNode a => a ∉ s.nodes
  | _ => True

theorem Inv.step {s : St} (h : Inv s) {e : Event} (ha : Admissible s e) : Inv (step s e) := by
  cases e with
  | advance dt => exact h.frame rfl rfl rfl rfl (fun _ hn => hn)
  | tick f => exact h.tick f
  | accept => exact h.accept
  | pollOk c sf f => exact h.pollOk c sf f
  | connErr c f => exact h.connDisconnect c none f
  | recv c ms f => exact h.recv c ms f
  | addNode a => exact h.addNode ha
  | dropNode n => exact h.dropNode n
  | send n sf f => exact h.send n sf f

/-- `evs` is admissible from `s`: every `addNode` in it adds a non-member. -/
def AdmissibleRun : St → List Event → Prop
  | _, [] => True
  | s, e :: es => Admissible s e ∧ AdmissibleRun (PSO.Transport.step s e) es

theorem Inv.run {evs : List Event} : ∀ {s : St}, Inv s → AdmissibleRun s evs → Inv (run s evs) := by
  induction evs with
  | nil => intro s h _; exact h
  | cons e es ih => intro s h ha; exact ih (h.step ha.1) ha.2

theorem inv_empty (selfAddr : Option Nat) (retry timeout now : Nat) :
    Inv { selfAddr := selfAddr, retry := retry, timeout := timeout, now := now, nodes := [], roNodes := [],
          roCounter := 0, conns := [], reg := [], unknown := [], lastAttempt := [], view := [], log := [] } := by
  refine ⟨List.nodup_nil, ?_, ?_, ?_, ?_, ?_⟩
  · intro n c hl; simp [lookup] at hl
  · intro c k n hk; simp [St.conn?] at hk
  · intro a c hl; simp [lookup] at hl
  · intro n hn; simp at hn
  · intro a ha; simp at ha

end PSO.Transport
