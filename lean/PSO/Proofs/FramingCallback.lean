import PSO.Proofs.FramingWriter

/-! The writer invariant for an object whose `onDisconnected` callback reconnects (and sends) at once. -/
namespace PSO.Framing

variable {Msg : Type}

/-- the message fits the 31-bit length field (otherwise `send` raises before touching the buffer) -/
def fits (cfg : Cfg Msg) (m : Msg) : Bool := decide ((cfg.enc m).length < 2147483648)

/-- messages sent on the current connection after one more event (no callback) -/
def logAfter (cfg : Cfg Msg) (log : List Msg) : Ev Msg → List Msg
  | .send m _ _ => if (cfg.enc m).length < 2147483648 then log ++ [m] else log
  | .connect _ _ => []
  | .poll _ => log
  | .disconnect => log

theorem WInv_step (cfg : Cfg Msg) (c : Conn Msg) (log : List Msg) (ev : Ev Msg)
    (h : WInv (frames cfg log) c) : WInv (frames cfg (logAfter cfg log ev)) (step cfg c ev) := by
  cases ev with
  | send m now s =>
    simp only [logAfter, step]
    by_cases hsz : (cfg.enc m).length < 2147483648
    · simp only [hsz, if_true]
      rw [frames_append]
      simpa [frames] using WInv_send cfg m now s hsz h
    · simp only [hsz, if_false]
      simpa [send, hsz] using h
  | poll e => exact WInv_poll cfg e h
  | disconnect => exact WInv_disconnect h
  | connect ok now => simpa [logAfter, step, frames] using WInv_connect c ok now

theorem WInv_sends (cfg : Cfg Msg) (now : Nat) (ms : List Msg) : ∀ (c : Conn Msg) (log : List Msg),
    WInv (frames cfg log) c →
    WInv (frames cfg (log ++ ms.filter (fits cfg))) (ms.foldl (fun c m => send cfg c m now []) c) := by
  induction ms with
  | nil => intro c log h; simpa using h
  | cons m ms ih =>
    intro c log h
    simp only [List.foldl_cons]
    by_cases hsz : (cfg.enc m).length < 2147483648
    · have hf : fits cfg m = true := by simp [fits, hsz]
      have h1 : WInv (frames cfg (log ++ [m])) (send cfg c m now []) := by
        rw [frames_append]; simpa [frames] using WInv_send cfg m now [] hsz h
      have := ih _ _ h1
      simpa [List.filter_cons, hf, List.append_assoc] using this
    · have hf : fits cfg m = false := by simp [fits, hsz]
      have h1 : WInv (frames cfg log) (send cfg c m now []) := by simpa [send, hsz] using h
      have := ih _ _ h1
      simpa [List.filter_cons, hf] using this

/-- whatever the object looked like: after the callback (`connect()`, then its sends) the new socket's bytes and
the write buffer hold exactly the callback's own messages -/
theorem WInv_afterDisc (cfg : Cfg Msg) (cb : DiscCb Msg) (now : Nat) (c : Conn Msg) :
    WInv (frames cfg (cb.msgs.filter (fits cfg))) (afterDisc cfg cb now c) := by
  have h0 : WInv (frames cfg ([] : List Msg)) (connect c cb.ok now) := by
    simpa [frames] using WInv_connect c cb.ok now
  simpa [afterDisc] using WInv_sends cfg now cb.msgs _ [] h0

/-- the log after one event on an object with callback `cb` -/
def cbLog (cfg : Cfg Msg) (cb : Option (DiscCb Msg)) (c : Conn Msg) (log : List Msg) (ev : Ev Msg) : List Msg :=
  match cb with
  | some cb => if (step cfg c ev).nDisc = c.nDisc + 1 then cb.msgs.filter (fits cfg) else logAfter cfg log ev
  | none => logAfter cfg log ev

theorem WInv_stepCb (cfg : Cfg Msg) (cb : Option (DiscCb Msg)) (clock : Nat) (c : Conn Msg) (log : List Msg)
    (ev : Ev Msg) (h : WInv (frames cfg log) c) :
    WInv (frames cfg (cbLog cfg cb c log ev)) (stepCb cfg cb clock c ev) := by
  cases cb with
  | none => exact WInv_step cfg c log ev h
  | some cb =>
    simp only [cbLog, stepCb]
    split
    · exact WInv_afterDisc cfg cb _ _
    · exact WInv_step cfg c log ev h

/-- the messages sent on the current connection — by the application since its `connect()`, or by the callback
and the application since the callback's `connect()` -/
def sentLogCb (cfg : Cfg Msg) (cb : Option (DiscCb Msg)) : Nat → Conn Msg → List Msg → List (Ev Msg) → List Msg
  | _, _, log, [] => log
  | clock, c, log, ev :: evs =>
    sentLogCb cfg cb (evTime clock ev) (stepCb cfg cb clock c ev) (cbLog cfg cb c log ev) evs

theorem WInv_runCb (cfg : Cfg Msg) (cb : Option (DiscCb Msg)) (evs : List (Ev Msg)) :
    ∀ (clock : Nat) (c : Conn Msg) (log : List Msg), WInv (frames cfg log) c →
      WInv (frames cfg (sentLogCb cfg cb clock c log evs)) (runCb cfg cb clock c evs) := by
  induction evs with
  | nil => intro _ c log h; exact h
  | cons ev evs ih =>
    intro clock c log h
    exact ih _ _ _ (WInv_stepCb cfg cb clock c log ev h)

/-- without a reconnecting callback `runCb` is `run` -/
theorem runCb_none (cfg : Cfg Msg) (evs : List (Ev Msg)) : ∀ (clock : Nat) (c : Conn Msg),
    runCb cfg none clock c evs = run cfg c evs := by
  induction evs with
  | nil => intro _ _; rfl
  | cons ev evs ih => intro clock c; simp only [runCb, stepCb, run, List.foldl_cons]; exact ih _ _

end PSO.Framing
