import PSO.Proofs.BridgeSend
import PSO.Proofs.NodeSendIntact

/-!
# Bridge, part 6: the follower side of `append_entries` ⊑ `recvAppend`, queue dispatch ⊑ `clientAppend`

Handler model: `PSO.NodeSend.appendEntriesEnv` = term test + head (`envState`, `envExtra`, `envOuts`) +
`followerAppend` (= `faChunk` + prev check + `faMerge`) + commit index (`envCommit`), all in
`PSO/Model/NodeSend.lean` and covered by the single-step correspondence.  `PSO.NodeSend.Node` has no
`votedFor` / `votes`: they travel in `PSO.NodeSend.Extra`.
-/
namespace PSO.Bridge
open PSO
open PSO.NodeSend

/-! ## the merge on journal entries -/

/-- `PSO.Raft.mergeEntries` on journal entries (list positions) -/
def mergeJ (log : List NodeSend.Entry) (k : Nat) : List NodeSend.Entry → List NodeSend.Entry
  | [] => log
  | e :: rest =>
    match log[k + 1]? with
    | none => log.take (k + 1) ++ (e :: rest)
    | some x => if x.term = e.term then mergeJ log (k + 1) rest else log.take (k + 1) ++ (e :: rest)

/-- what `faMerge` does to the journal (no dynamic membership), on list positions: `k` = position of `prev` -/
def faLog (log : List NodeSend.Entry) (k : Nat) (new : List NodeSend.Entry) : List NodeSend.Entry :=
  (if (log.drop (k + 1)).drop (matchedCount (log.drop (k + 1)) new) ≠ [] ∧
      new.drop (matchedCount (log.drop (k + 1)) new) ≠ []
   then log.take (k + matchedCount (log.drop (k + 1)) new + 1) else log) ++
  new.drop (matchedCount (log.drop (k + 1)) new)

theorem matchedCount_nil_right (ps : List NodeSend.Entry) : matchedCount ps [] = 0 := by cases ps <;> rfl

theorem faLog_eq_mergeJ (log : List NodeSend.Entry) : ∀ (new : List NodeSend.Entry) (k : Nat),
    faLog log k new = mergeJ log k new := by
  intro new
  induction new with
  | nil => intro k; simp [faLog, mergeJ, matchedCount_nil_right]
  | cons e rest ih =>
    intro k
    cases hx : log[k + 1]? with
    | none =>
      have hlen : log.length ≤ k + 1 := by
        rcases Nat.lt_or_ge (k + 1) log.length with h | h
        · rw [List.getElem?_eq_getElem h] at hx; cases hx
        · exact h
      have hd : log.drop (k + 1) = [] := List.drop_eq_nil_of_le hlen
      simp only [faLog, mergeJ, hx, hd, matchedCount_nil, List.drop_nil, ne_eq, not_true_eq_false, false_and,
        if_false, List.drop_zero]
      rw [List.take_of_length_le hlen]
    | some x =>
      have hlt : k + 1 < log.length := by
        rcases Nat.lt_or_ge (k + 1) log.length with h | h
        · exact h
        · rw [List.getElem?_eq_none h] at hx; cases hx
      have hd : log.drop (k + 1) = x :: log.drop (k + 1 + 1) := by
        rw [List.drop_eq_getElem_cons hlt]
        rw [List.getElem?_eq_getElem hlt] at hx
        cases hx; rfl
      by_cases ht : x.term = e.term
      · have hmc : matchedCount (x :: log.drop (k + 1 + 1)) (e :: rest) = matchedCount (log.drop (k + 1 + 1)) rest + 1 := by
          simp [matchedCount, ht]
        simp only [mergeJ, hx, if_pos ht]
        rw [← ih (k + 1)]
        simp only [faLog, hd, hmc, List.drop_succ_cons]
        have : k + (matchedCount (log.drop (k + 1 + 1)) rest + 1) + 1 = k + 1 + matchedCount (log.drop (k + 1 + 1)) rest + 1 := by omega
        rw [this]
      · have hmc : matchedCount (x :: log.drop (k + 1 + 1)) (e :: rest) = 0 := by
          simp [matchedCount, ht]
        simp only [mergeJ, hx, if_neg ht, faLog, hd, hmc, List.drop_zero, ne_eq, reduceCtorEq, not_false_eq_true,
          and_self, if_true, Nat.add_zero]

theorem mergeJ_abs (log : List NodeSend.Entry) : ∀ (es : List NodeSend.Entry) (k : Nat),
    absLogS (mergeJ log k es) = Raft.mergeEntries (absLogS log) k (absLogS es) := by
  intro es
  induction es with
  | nil => intro k; rfl
  | cons e rest ih =>
    intro k
    have hg : (absLogS log)[k + 1]? = (log[k + 1]?).map absEntryS := by
      unfold absLogS; rw [List.getElem?_map]
    simp only [absLogS, List.map_cons] at hg ⊢
    unfold mergeJ Raft.mergeEntries
    rw [hg]
    cases hx : log[k + 1]? with
    | none => simp [List.map_take]
    | some x =>
      simp only [Option.map_some]
      have : (absEntryS x).term = (absEntryS e).term ↔ x.term = e.term := Iff.rfl
      by_cases ht : x.term = e.term
      · rw [if_pos ht, if_pos (this.mpr ht)]
        exact ih (k + 1)
      · rw [if_neg ht, if_neg (fun h => ht (this.mp h))]
        simp [List.map_take]

theorem mergeEntries_ghost (ghost A : List Raft.Entry) : ∀ (es : List Raft.Entry) (k : Nat),
    Raft.mergeEntries (ghost ++ A) (ghost.length + k) es = ghost ++ Raft.mergeEntries A k es := by
  intro es
  induction es with
  | nil => intro k; rfl
  | cons e rest ih =>
    intro k
    have hg : (ghost ++ A)[ghost.length + k + 1]? = A[k + 1]? := by
      rw [List.getElem?_append_right (by omega)]
      congr 1; omega
    have htake : (ghost ++ A).take (ghost.length + k + 1) = ghost ++ A.take (k + 1) := by
      rw [List.take_append]
      have h1 : ghost.take (ghost.length + k + 1) = ghost := List.take_of_length_le (by omega)
      have h2 : ghost.length + k + 1 - ghost.length = k + 1 := by omega
      rw [h1, h2]
    unfold Raft.mergeEntries
    rw [hg, htake]
    cases A[k + 1]? with
    | none => simp
    | some x =>
      simp only
      split
      · have := ih (k + 1)
        rw [← Nat.add_assoc] at this
        exact this
      · simp

/-! ## `followerAppend` on a regular message (no chunk, `prev` inside the journal, no dynamic membership) -/

theorem getEntries_at {first : Nat} {log : List NodeSend.Entry} (hne : log ≠ []) (h : IdxOK first log) {pi : Nat}
    (hpi : first ≤ pi) : getEntries log (some pi) none none = some (log.drop (pi - first)) := by
  have := getEntries_from hne h (pi - first) none none
  have e : first + (pi - first) = pi := by omega
  rw [e] at this
  exact this

theorem lastIdx_get {first : Nat} {log : List NodeSend.Entry} (hne : log ≠ []) (h : IdxOK first log) :
    lastIdx? log = some (first + log.length - 1) := by
  rw [lastIdx_of hne h]
  have : 1 ≤ log.length := List.length_pos_iff.mpr hne
  congr 1; omega

/-- **prev beyond the journal**: `reset` reply with `last + 1`, nothing changes -/
theorem followerAppend_prev_missing (cfg : Conf) (s : Node) (src : Nat) {first : Nat} (hne : s.log ≠ [])
    (hidx : IdxOK first s.log) (pi pt : Nat) (es : List NodeSend.Entry) (hpi : first ≤ pi)
    (hk : s.log.length ≤ pi - first) :
    followerAppend cfg s src { prev := some (pi, pt), entries := es } =
      (s, .ok [.send src (.nextNodeIdx (first + s.log.length - 1 + 1) true false s.term)]) := by
  unfold followerAppend faChunk
  simp only [Option.map_some, getEntries_at hne hidx hpi, List.drop_eq_nil_of_le hk, lastIdx_get hne hidx]

/-- **prev below the journal start** (compacted away): the handler cannot check it and answers `reset` with
`last + 1`, nothing changes — although the ghost-complete model log still holds `prev` (finding F4: the protocol
model's `recvAppend` would accept or reject by the term; the harness maps this delivery to `observeTerm` + `lose`). -/
theorem followerAppend_prev_compacted (cfg : Conf) (s : Node) (src : Nat) {first : Nat} (hne : s.log ≠ [])
    (hidx : IdxOK first s.log) (pi pt : Nat) (es : List NodeSend.Entry) (hpi : pi < first) :
    followerAppend cfg s src { prev := some (pi, pt), entries := es } =
      (s, .ok [.send src (.nextNodeIdx (first + s.log.length - 1 + 1) true false s.term)]) := by
  have hg : getEntries s.log (some pi) none none = some [] := by
    cases hl : s.log with
    | nil => exact absurd hl hne
    | cons e0 t =>
      have h0 : e0.idx = first := by
        have := hidx 0 e0 (by rw [hl]; rfl)
        omega
      unfold getEntries
      simp only [h0, if_pos hpi]
  unfold followerAppend faChunk
  simp only [Option.map_some, hg, lastIdx_get hne hidx]

/-- **term mismatch at prev**: `reset` reply with `prevLogIdx`, nothing changes -/
theorem followerAppend_prev_mismatch (cfg : Conf) (s : Node) (src : Nat) {first : Nat} (hne : s.log ≠ [])
    (hidx : IdxOK first s.log) (pi pt : Nat) (es : List NodeSend.Entry) (hpi : first ≤ pi)
    {p0 : NodeSend.Entry} (hp0 : s.log[pi - first]? = some p0) (ht : p0.term ≠ pt) :
    followerAppend cfg s src { prev := some (pi, pt), entries := es } =
      (s, .ok [.send src (.nextNodeIdx pi true false s.term)]) := by
  have hlt : pi - first < s.log.length := by
    rcases Nat.lt_or_ge (pi - first) s.log.length with h | h
    · exact h
    · rw [List.getElem?_eq_none h] at hp0; cases hp0
  have hd : s.log.drop (pi - first) = p0 :: s.log.drop (pi - first + 1) := by
    rw [List.drop_eq_getElem_cons hlt]
    rw [List.getElem?_eq_getElem hlt] at hp0
    cases hp0; rfl
  unfold followerAppend faChunk
  simp only [Option.map_some, getEntries_at hne hidx hpi, hd, Option.getD_some, ne_eq, ht, not_false_eq_true, if_true]

/-- **prev matches**: the journal becomes `mergeJ` (matching entries kept, conflicting suffix replaced, rest
appended), success reply with `prevLogIdx + |entries| + 1`. -/
theorem followerAppend_accept (cfg : Conf) (hdyn : cfg.dynMember = false) (s : Node) (src : Nat) {first : Nat}
    (hne : s.log ≠ []) (hidx : IdxOK first s.log) (pi pt : Nat) (es : List NodeSend.Entry) (hpi : first ≤ pi)
    {p0 : NodeSend.Entry} (hp0 : s.log[pi - first]? = some p0) (ht : p0.term = pt) :
    followerAppend cfg s src { prev := some (pi, pt), entries := es } =
      ({ s with log := mergeJ s.log (pi - first) es },
       .ok [.send src (.nextNodeIdx (pi + es.length + 1) false true s.term)]) := by
  have hlt : pi - first < s.log.length := by
    rcases Nat.lt_or_ge (pi - first) s.log.length with h | h
    · exact h
    · rw [List.getElem?_eq_none h] at hp0; cases hp0
  have hd : s.log.drop (pi - first) = p0 :: s.log.drop (pi - first + 1) := by
    rw [List.drop_eq_getElem_cons hlt]
    rw [List.getElem?_eq_getElem hlt] at hp0
    cases hp0; rfl
  rw [← faLog_eq_mergeJ]
  unfold followerAppend faChunk
  simp only [Option.map_some, getEntries_at hne hidx hpi, hd, Option.getD_some, ne_eq, ht, not_true_eq_false, if_false]
  unfold faMerge faLog
  simp only [hdyn, Bool.false_eq_true, if_false]
  by_cases hc : ¬ (s.log.drop (pi - first + 1)).drop (matchedCount (s.log.drop (pi - first + 1)) es) = [] ∧
      ¬ es.drop (matchedCount (s.log.drop (pi - first + 1)) es) = []
  · simp only [ne_eq, if_pos hc]
    have hdel : deleteFrom s.log (pi + matchedCount (s.log.drop (pi - first + 1)) es + 1) =
        some (s.log.take (pi - first + matchedCount (s.log.drop (pi - first + 1)) es + 1)) := by
      cases hl : s.log with
      | nil => exact absurd hl hne
      | cons e0 t =>
        have h0 : e0.idx = first := by
          have := hidx 0 e0 (by rw [hl]; rfl)
          omega
        unfold deleteFrom
        simp only [h0]
        rw [if_neg (by omega)]
        congr 2
        omega
    simp only [hdel, List.nil_append]
  · simp only [ne_eq, if_neg hc, List.nil_append]

/-! ## abstraction of a `PSO.NodeSend.Node` -/

def absRoleS : NodeSend.Role → Raft.Role
  | .follower => .follower
  | .candidate => .candidate
  | .leader => .leader

/-- real match index ↦ model position (as `absMatch`) -/
def absMatchS (m : NodeSend.Map) : Nat → Nat := fun j => (m.get? j).getD 0 - 1

/-- `ghost` = the compacted prefix of the ghost-complete model log (`|ghost| + 1` = first journal index) -/
def absNodeS (ghost : List Raft.Entry) (x : Extra) (s : Node) : Raft.NodeSt :=
  { term := s.term, votedFor := x.votedFor, role := absRoleS s.role, votes := x.votes,
    log := ghost ++ absLogS s.log, commit := s.commit - 1, applied := s.lastApplied - 1,
    matchIdx := absMatchS s.matchIndex }

/-- outputs of node `n` as model messages: only a SUCCESS `next_node_idx` is one (`ack`, position = `next − 2`) -/
def absOutS (n : Nat) : Out → List Raft.Msg
  | .send d (.nextNodeIdx next _ true term) => [Raft.Msg.ack term n d (next - 2)]
  | _ => []

def absOutsS (n : Nat) (outs : List Out) : List Raft.Msg := outs.flatMap (absOutS n)

theorem absOutsS_append (n : Nat) (a b : List Out) : absOutsS n (a ++ b) = absOutsS n a ++ absOutsS n b := by
  simp [absOutsS]

theorem absOutsS_callbacks (n : Nat) (l : List (Nat × Nat)) (r : FailReason) :
    absOutsS n (l.map fun p => Out.callback p.2 r) = [] := by
  induction l with
  | nil => rfl
  | cons p rest ih => simpa [absOutsS, absOutS] using ih

/-! ## the envelope of the `append_entries` handler

`PSO.NodeSend.appendEntriesEnv` (with `Extra`, `envState`, `envExtra`, `envOuts`, `envCommit`) — the whole handler
for a message that carries `prevLogIdx`: term test, `__onLeaderChanged`, `__raftLeader = node`, term adoption
(`votedFor = None`), `__setState(FOLLOWER)`, `followerAppend`, commit index.  It lives in the handler model
`PSO/Model/NodeSend.lean` and is correspondence-tested against the real `__onMessageReceived`
(driver op `appendmsg`, `harness/corr/nodesend_handlers.py`); `appendMsgEnv_regular` (NodeSendBasic) links it to the
handler for any `append_entries` message. -/

/-! ## node-level reading of `recvAppend` -/

def appendNode (ns : Raft.NodeSt) (t prev prevTerm : Nat) (es : List Raft.Entry) (c : Nat) : Raft.NodeSt × Bool :=
  if t < ns.term then (ns, false)
  else
    if prev < (Raft.adoptTerm ns t).log.length ∧ Raft.termAt (Raft.adoptTerm ns t).log prev = prevTerm then
      ({ Raft.adoptTerm ns t with
          log := Raft.mergeEntries (Raft.adoptTerm ns t).log prev es
          commit := if (Raft.adoptTerm ns t).commit < c then max (Raft.adoptTerm ns t).commit (min c (prev + es.length))
                    else (Raft.adoptTerm ns t).commit }, true)
    else (Raft.adoptTerm ns t, false)

theorem step_recvAppend (N : Nat) (S : Raft.State) (n t ldr prev prevTerm : Nat) (es : List Raft.Entry) (c : Nat)
    (hm : Raft.Msg.append t ldr n prev prevTerm es c ∈ S.msgs) :
    ∃ S', Raft.step N S (.recvAppend n (.append t ldr n prev prevTerm es c)) = some S' ∧
      S'.nodes n = (appendNode (S.nodes n) t prev prevTerm es c).1 ∧ (∀ k, k ≠ n → S'.nodes k = S.nodes k) ∧
      S'.msgs = S.msgs.erase (.append t ldr n prev prevTerm es c) ++
        (if (appendNode (S.nodes n) t prev prevTerm es c).2 then [Raft.Msg.ack t n ldr (prev + es.length)] else []) := by
  simp only [Raft.step, hm, and_self, if_true, appendNode]
  by_cases hst : t < (S.nodes n).term
  · simp only [if_pos hst]
    exact ⟨_, rfl, rfl, fun _ _ => rfl, by simp⟩
  · simp only [if_neg hst]
    by_cases hv : prev < (Raft.adoptTerm (S.nodes n) t).log.length ∧
        Raft.termAt (Raft.adoptTerm (S.nodes n) t).log prev = prevTerm
    · simp only [if_pos hv]
      refine ⟨_, rfl, ?_, ?_, ?_⟩
      · simp [Raft.setNode]
      · intro k hk; simp [Raft.setNode, hk]
      · simp
    · simp only [if_neg hv]
      refine ⟨_, rfl, ?_, ?_, ?_⟩
      · simp [Raft.setNode]
      · intro k hk; simp [Raft.setNode, hk]
      · simp

/-! ## the whole handler ⊑ `recvAppend` (node level) -/

theorem adoptTerm_frame (ns : Raft.NodeSt) (t : Nat) :
    (Raft.adoptTerm ns t).log = ns.log ∧ (Raft.adoptTerm ns t).commit = ns.commit := by
  unfold Raft.adoptTerm
  split <;> exact ⟨rfl, rfl⟩

theorem env_absS (ghost : List Raft.Entry) (x : Extra) (s : Node) (src t : Nat) :
    absNodeS ghost (envExtra x s t) (envState s src t) = Raft.adoptTerm (absNodeS ghost x s) t := by
  unfold Raft.adoptTerm envExtra envState
  have e : (absNodeS ghost x s).term = s.term := rfl
  rw [e]
  by_cases hlt : s.term < t
  · simp only [if_pos hlt]; rfl
  · simp only [if_neg hlt]; rfl

theorem envState_term (s : Node) (src t : Nat) (h : ¬ t < s.term) : (envState s src t).term = t := by
  show (if s.term < t then t else s.term) = t
  split <;> omega

theorem absOutsS_envOuts (n : Nat) (s : Node) (src : Nat) : absOutsS n (envOuts s src) = [] := by
  unfold envOuts
  split
  · rfl
  · exact absOutsS_callbacks n _ _

theorem termAt_ghost (ghost : List Raft.Entry) (log : List NodeSend.Entry) (k : Nat) (p0 : NodeSend.Entry)
    (h : log[k]? = some p0) : Raft.termAt (ghost ++ absLogS log) (ghost.length + k) = p0.term := by
  unfold Raft.termAt
  rw [List.getElem?_append_right (Nat.le_add_right _ _), Nat.add_sub_cancel_left]
  unfold absLogS
  rw [List.getElem?_map, h]
  rfl

/-- **The `append_entries` handler (regular message) refines `recvAppend`** (node level).  Message of term `t` from
`src` with `prev = (pi, pt)`, entries `es`, leader commit `lc`; model message
`append t src n (pi − 1) pt (absLogS es) (lc − 1)`.  Stale term: nothing happens on either side.  Otherwise the
abstraction of the result is `adoptTerm` followed — iff the entry at `prev` exists with term `pt` — by
`log := mergeEntries log (pi − 1) es`, `commit := max commit (min (lc − 1) (pi − 1 + |es|))` when `commit < lc − 1`;
the success reply is the model's `ack t n src (pi − 1 + |es|)`, the two `reset` replies are no model message. -/
theorem appendEntriesEnv_abs (cfg : Conf) (hdyn : cfg.dynMember = false) (x : Extra) (s : Node) (src n t lc : Nat)
    {first : Nat} (ghost : List Raft.Entry) (hgh : ghost.length + 1 = first) (hne : s.log ≠ [])
    (hidx : IdxOK first s.log) (pi pt : Nat) (es : List NodeSend.Entry) (hpi : first ≤ pi) (hc : 1 ≤ s.commit) :
    ∃ x' s' outs, appendEntriesEnv cfg x s src t lc { prev := some (pi, pt), entries := es } = (x', s', .ok outs) ∧
      absNodeS ghost x' s' = (appendNode (absNodeS ghost x s) t (pi - 1) pt (absLogS es) (lc - 1)).1 ∧
      absOutsS n outs = (if (appendNode (absNodeS ghost x s) t (pi - 1) pt (absLogS es) (lc - 1)).2
        then [Raft.Msg.ack t n src (pi - 1 + (absLogS es).length)] else []) := by
  unfold appendEntriesEnv appendNode
  have eterm : (absNodeS ghost x s).term = s.term := rfl
  rw [eterm]
  by_cases hst : t < s.term
  · simp only [if_pos hst]
    exact ⟨x, s, [], rfl, rfl, rfl⟩
  · simp only [if_neg hst]
    obtain ⟨hl, hcm⟩ := adoptTerm_frame (absNodeS ghost x s) t
    have elog : (absNodeS ghost x s).log = ghost ++ absLogS s.log := rfl
    rw [hl, hcm, elog]
    have hpos : pi - 1 = ghost.length + (pi - first) := by omega
    have hlenA : (ghost ++ absLogS s.log).length = ghost.length + s.log.length := by
      simp [absLogS]
    have henv := env_absS ghost x s src t
    have hne' : (envState s src t).log ≠ [] := hne
    have hidx' : IdxOK first (envState s src t).log := hidx
    by_cases hk : s.log.length ≤ pi - first
    · -- prev beyond the journal
      rw [followerAppend_prev_missing cfg (envState s src t) src hne' hidx' pi pt es hpi hk]
      have hno : ¬ (pi - 1 < (ghost ++ absLogS s.log).length ∧ Raft.termAt (ghost ++ absLogS s.log) (pi - 1) = pt) := by
        intro g; rw [hlenA] at g; omega
      simp only [if_neg hno]
      refine ⟨_, _, _, rfl, ?_, ?_⟩
      · exact henv
      · rw [absOutsS_append, absOutsS_envOuts]; rfl
    · have hlt : pi - first < s.log.length := by omega
      have hp0 : s.log[pi - first]? = some s.log[pi - first] := List.getElem?_eq_getElem hlt
      have hta := termAt_ghost ghost s.log (pi - first) _ hp0
      rw [← hpos] at hta
      by_cases ht : (s.log[pi - first]).term = pt
      · -- accept
        rw [followerAppend_accept cfg hdyn (envState s src t) src hne' hidx' pi pt es hpi hp0 ht]
        have hyes : pi - 1 < (ghost ++ absLogS s.log).length ∧ Raft.termAt (ghost ++ absLogS s.log) (pi - 1) = pt := by
          rw [hlenA, hta]; exact ⟨by omega, ht⟩
        simp only [if_pos hyes]
        refine ⟨_, _, _, rfl, ?_, ?_⟩
        · rw [← henv]
          have hack : ackNext [Out.send src (Msg.nextNodeIdx (pi + es.length + 1) false true (envState s src t).term)] =
              some (pi + es.length + 1) := rfl
          apply nodeSt_ext
          · rfl
          · rfl
          · rfl
          · rfl
          · show ghost ++ absLogS (mergeJ s.log (pi - first) es) = Raft.mergeEntries (ghost ++ absLogS s.log) (pi - 1) (absLogS es)
            rw [hpos, mergeEntries_ghost, mergeJ_abs]
          · have hlen : (absLogS es).length = es.length := by simp [absLogS]
            have h1 : 1 ≤ pi := by omega
            have ec : ∀ (S2 : Node), S2.commit = s.commit →
                envCommit S2 lc [Out.send src (Msg.nextNodeIdx (pi + es.length + 1) false true (envState s src t).term)] - 1 =
                  (if s.commit - 1 < lc - 1 then max (s.commit - 1) (min (lc - 1) (pi - 1 + (absLogS es).length))
                   else s.commit - 1) := by
              intro S2 h2
              unfold envCommit
              rw [hack, h2, hlen]
              simp only
              by_cases hlc : s.commit < lc
              · rw [if_pos hlc, if_pos (by omega)]
                omega
              · rw [if_neg hlc, if_neg (by omega)]
            exact ec _ rfl
          · rfl
          · rfl
        · rw [absOutsS_append, absOutsS_envOuts, envState_term s src t hst]
          have hlen : (absLogS es).length = es.length := by simp [absLogS]
          rw [hlen]
          show [Raft.Msg.ack t n src (pi + es.length + 1 - 2)] = _
          have : pi + es.length + 1 - 2 = pi - 1 + es.length := by omega
          rw [this, if_pos trivial]
      · -- term mismatch
        rw [followerAppend_prev_mismatch cfg (envState s src t) src hne' hidx' pi pt es hpi hp0 ht]
        have hno : ¬ (pi - 1 < (ghost ++ absLogS s.log).length ∧ Raft.termAt (ghost ++ absLogS s.log) (pi - 1) = pt) := by
          intro g; rw [hta] at g; exact ht g.2
        simp only [if_neg hno]
        refine ⟨_, _, _, rfl, ?_, ?_⟩
        · exact henv
        · rw [absOutsS_append, absOutsS_envOuts]; rfl

/-! ## chunked entries: `start` / `process` change the reassembly buffer only, `finish` = a regular message with one entry -/

/-- a `start` / `process` chunk: only `recvBuf` changes, the reply is a (non-reset) failure -/
theorem followerAppend_partial_chunk (cfg : Conf) (s : Node) (src : Nat) {first : Nat} (hne : s.log ≠ [])
    (hidx : IdxOK first s.log) (prev : Option (Nat × Nat)) (l : Label) (data : List PByte) (buf' : Option (List PByte))
    (h : recvChunk s.recvBuf l data = .ok (buf', none)) :
    followerAppend cfg s src { prev := prev, chunk := some (l, data) } =
      ({ s with recvBuf := buf' }, .ok [.send src (.nextNodeIdx (first + s.log.length - 1 + 1) false false s.term)]) := by
  unfold followerAppend faChunk
  simp only [h, lastIdx_get hne hidx]

/-- the `finish` chunk that completes the pickled entry `e` is handled like the regular message with `[e]`
(on the state with the buffer cleared) -/
theorem followerAppend_finish_eq (cfg : Conf) (s : Node) (src : Nat) (prev : Option (Nat × Nat)) (data : List PByte)
    (b' : Option (List PByte)) (bytes : List PByte) (e : NodeSend.Entry)
    (h : recvChunk s.recvBuf .finish data = .ok (b', some bytes)) (hu : unpickleEntry bytes = some e) :
    followerAppend cfg s src { prev := prev, chunk := some (.finish, data) } =
      followerAppend cfg { s with recvBuf := none } src { prev := prev, entries := [e] } := by
  unfold followerAppend faChunk
  simp only [h, hu]

/-- a `start` / `process` chunk through the whole handler: on the abstraction only the term adoption (the model's
`observeTerm n t`), no model message -/
theorem appendEntriesEnv_partial_chunk_abs (cfg : Conf) (x : Extra) (s : Node) (src n t lc : Nat) {first : Nat}
    (ghost : List Raft.Entry) (hne : s.log ≠ []) (hidx : IdxOK first s.log) (prev : Option (Nat × Nat)) (l : Label)
    (data : List PByte) (buf' : Option (List PByte)) (h : recvChunk s.recvBuf l data = .ok (buf', none))
    (hst : ¬ t < s.term) :
    ∃ x' s' outs, appendEntriesEnv cfg x s src t lc { prev := prev, chunk := some (l, data) } = (x', s', .ok outs) ∧
      absNodeS ghost x' s' = Raft.adoptTerm (absNodeS ghost x s) t ∧ absOutsS n outs = [] := by
  unfold appendEntriesEnv
  simp only [if_neg hst]
  have hne' : (envState s src t).log ≠ [] := hne
  have hidx' : IdxOK first (envState s src t).log := hidx
  rw [followerAppend_partial_chunk cfg (envState s src t) src hne' hidx' prev l data buf' h]
  refine ⟨_, _, _, rfl, ?_, ?_⟩
  · rw [← env_absS ghost x s src t]
    rfl
  · rw [absOutsS_append, absOutsS_envOuts]; rfl

/-- the `finish` chunk through the whole handler = the regular message with the reassembled entry -/
theorem appendEntriesEnv_finish_eq (cfg : Conf) (x : Extra) (s : Node) (src t lc : Nat) (prev : Option (Nat × Nat))
    (data : List PByte) (b' : Option (List PByte)) (bytes : List PByte) (e : NodeSend.Entry)
    (h : recvChunk s.recvBuf .finish data = .ok (b', some bytes)) (hu : unpickleEntry bytes = some e)
    (hst : ¬ t < s.term) :
    appendEntriesEnv cfg x s src t lc { prev := prev, chunk := some (.finish, data) } =
      appendEntriesEnv cfg x { s with recvBuf := none } src t lc { prev := prev, entries := [e] } := by
  unfold appendEntriesEnv
  simp only [if_neg hst]
  have h' : recvChunk (envState s src t).recvBuf .finish data = .ok (b', some bytes) := h
  rw [followerAppend_finish_eq cfg (envState s src t) src prev data b' bytes e h' hu]
  rfl

/-! ## cluster level -/

/-- **`appendEntries_refines`.**  The `append_entries` handler on a regular message ⊑ `recvAppend`. -/
theorem appendEntries_refines (cfg : Conf) (hdyn : cfg.dynMember = false) (x : Extra) (s : Node) (src t lc : Nat)
    {first : Nat} (ghost : List Raft.Entry) (hgh : ghost.length + 1 = first) (hne : s.log ≠ [])
    (hidx : IdxOK first s.log) (pi pt : Nat) (es : List NodeSend.Entry) (hpi : first ≤ pi) (hc : 1 ≤ s.commit)
    (N n : Nat) (S : Raft.State) (habs : S.nodes n = absNodeS ghost x s)
    (hm : Raft.Msg.append t src n (pi - 1) pt (absLogS es) (lc - 1) ∈ S.msgs) :
    ∃ x' s' outs S', appendEntriesEnv cfg x s src t lc { prev := some (pi, pt), entries := es } = (x', s', .ok outs) ∧
      Raft.step N S (.recvAppend n (.append t src n (pi - 1) pt (absLogS es) (lc - 1))) = some S' ∧
      S'.nodes n = absNodeS ghost x' s' ∧ (∀ k, k ≠ n → S'.nodes k = S.nodes k) ∧
      S'.msgs = S.msgs.erase (.append t src n (pi - 1) pt (absLogS es) (lc - 1)) ++ absOutsS n outs := by
  obtain ⟨x', s', outs, henv, a1, a2⟩ :=
    appendEntriesEnv_abs cfg hdyn x s src n t lc ghost hgh hne hidx pi pt es hpi hc
  obtain ⟨S', hstep, h1, h2, h3⟩ := step_recvAppend N S n t src (pi - 1) pt (absLogS es) (lc - 1) hm
  refine ⟨x', s', outs, S', henv, hstep, ?_, h2, ?_⟩
  · rw [h1, habs, a1]
  · rw [h3, habs, a2]

/-- **`appendEntries_chunk_refines`.**  A `start` / `process` chunk ⊑ `observeTerm` (nothing when the term is
stale: `appendEntriesEnv` returns the state unchanged by its first branch). -/
theorem appendEntries_chunk_refines (cfg : Conf) (x : Extra) (s : Node) (src t lc : Nat) {first : Nat}
    (ghost : List Raft.Entry) (hne : s.log ≠ []) (hidx : IdxOK first s.log) (prev : Option (Nat × Nat)) (l : Label)
    (data : List PByte) (buf' : Option (List PByte)) (h : recvChunk s.recvBuf l data = .ok (buf', none))
    (hst : ¬ t < s.term) (N n : Nat) (S : Raft.State) (habs : S.nodes n = absNodeS ghost x s) :
    ∃ x' s' outs, appendEntriesEnv cfg x s src t lc { prev := prev, chunk := some (l, data) } = (x', s', .ok outs) ∧
      Raft.step N S (.observeTerm n t) = some (Raft.setNode S n (absNodeS ghost x' s')) ∧ absOutsS n outs = [] := by
  obtain ⟨x', s', outs, henv, a1, a2⟩ :=
    appendEntriesEnv_partial_chunk_abs cfg x s src n t lc ghost hne hidx prev l data buf' h hst
  refine ⟨x', s', outs, henv, ?_, a2⟩
  have hg : (S.nodes n).term ≤ t := by
    rw [habs]; show s.term ≤ t; omega
  simp only [Raft.step, if_pos hg]
  rw [habs, a1]

/-- **`appendEntries_finish_refines`.**  The `finish` chunk that completes entry `e` ⊑ ONE `recvAppend` with the
one entry `e` (the burst as a whole = the intermediate `observeTerm`s + this). -/
theorem appendEntries_finish_refines (cfg : Conf) (hdyn : cfg.dynMember = false) (x : Extra) (s : Node) (src t lc : Nat)
    {first : Nat} (ghost : List Raft.Entry) (hgh : ghost.length + 1 = first) (hne : s.log ≠ [])
    (hidx : IdxOK first s.log) (pi pt : Nat) (hpi : first ≤ pi) (hc : 1 ≤ s.commit)
    (data : List PByte) (b' : Option (List PByte)) (bytes : List PByte) (e : NodeSend.Entry)
    (h : recvChunk s.recvBuf .finish data = .ok (b', some bytes)) (hu : unpickleEntry bytes = some e)
    (hst : ¬ t < s.term)
    (N n : Nat) (S : Raft.State) (habs : S.nodes n = absNodeS ghost x s)
    (hm : Raft.Msg.append t src n (pi - 1) pt [absEntryS e] (lc - 1) ∈ S.msgs) :
    ∃ x' s' outs S', appendEntriesEnv cfg x s src t lc { prev := some (pi, pt), chunk := some (.finish, data) } =
        (x', s', .ok outs) ∧
      Raft.step N S (.recvAppend n (.append t src n (pi - 1) pt [absEntryS e] (lc - 1))) = some S' ∧
      S'.nodes n = absNodeS ghost x' s' ∧ (∀ k, k ≠ n → S'.nodes k = S.nodes k) ∧
      S'.msgs = S.msgs.erase (.append t src n (pi - 1) pt [absEntryS e] (lc - 1)) ++ absOutsS n outs := by
  rw [appendEntriesEnv_finish_eq cfg x s src t lc (some (pi, pt)) data b' bytes e h hu hst]
  exact appendEntries_refines cfg hdyn x { s with recvBuf := none } src t lc ghost hgh hne hidx pi pt [e] hpi hc
    N n S habs hm

end PSO.Bridge
