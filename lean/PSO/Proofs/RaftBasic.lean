import PSO.Proofs.RaftDefs
import Mathlib.Data.List.Perm.Subperm
import Mathlib.Data.List.Range

namespace PSO.Raft

theorem nodup_lt_length_le {N : Nat} {l : List Nat} (hn : l.Nodup) (hl : ∀ x ∈ l, x < N) :
    l.length ≤ N := by
  have hsub : l ⊆ List.range N := fun x hx => List.mem_range.mpr (hl x hx)
  have := (hn.subperm hsub).length_le
  simpa using this

theorem quorum_inter {N : Nat} {A B : List Nat} (hA : IsQuorum N A) (hB : IsQuorum N B) :
    ∃ x, x ∈ A ∧ x ∈ B := by
  by_contra h
  have hd : A.Disjoint B := by
    intro x hxA hxB; exact h ⟨x, hxA, hxB⟩
  have hn : (A ++ B).Nodup := List.nodup_append.mpr ⟨hA.1, hB.1, fun a ha b hb hab => hd ha (hab ▸ hb)⟩
  have hl : ∀ x ∈ A ++ B, x < N := by
    intro x hx
    rcases List.mem_append.mp hx with h | h
    · exact hA.2.1 x h
    · exact hB.2.1 x h
  have := nodup_lt_length_le hn hl
  have h1 := hA.2.2; have h2 := hB.2.2
  simp at this
  omega

end PSO.Raft
