import PSO.Proofs.NodeTickObserver

/-!
# `KeysOK`: a leader has a match index and a response time for every voter

The model reads a missing dictionary entry as 0 where Python would raise `KeyError`.  This file shows the
reads in question never miss: `KeysOK` is established by `__onBecomeLeader` and preserved by every modelled
handler (for read-only disconnects: of nodes outside the voter set — the transport reports them for observers
only).  So on states reachable from a `KeysOK` state the default is never used by `commitCount` / `freshCount`.
-/
namespace PSO.NodeTick
open PSO.Raft (Role isMajority)

def HasKey (m : AMap) (k : Nat) : Prop := (mget m k).isSome = true

def KeysOK (s : NodeState) : Prop :=
  s.role = .leader → ∀ n ∈ s.others, HasKey s.matchIndex n ∧ HasKey s.lastResponse n

theorem hasKey_mset_self (m : AMap) (k v : Nat) : HasKey (mset m k v) k := by
  unfold HasKey; rw [mget_mset_self]; rfl

theorem hasKey_mset_of (m : AMap) (k v j : Nat) (h : HasKey m j) : HasKey (mset m k v) j := by
  by_cases hj : j = k
  · subst hj; exact hasKey_mset_self m j v
  · unfold HasKey at *; rw [mget_mset_ne _ _ _ _ hj]; exact h

theorem hasKey_mdel_ne (m : AMap) (k j : Nat) (hj : j ≠ k) (h : HasKey m j) : HasKey (mdel m k) j := by
  unfold HasKey at *; rw [mget_mdel_ne _ _ _ hj]; exact h

theorem foldl_mset_hasKey (v : Nat) (nodes : List Nat) :
    ∀ (m0 : AMap) (k : Nat), (k ∈ nodes ∨ HasKey m0 k) → HasKey (nodes.foldl (fun m n => mset m n v) m0) k := by
  induction nodes with
  | nil =>
    intro m0 k h
    rcases h with h | h
    · cases h
    · exact h
  | cons a rest ih =>
    intro m0 k h
    simp only [List.foldl_cons]
    apply ih
    rcases h with h | h
    · rcases List.mem_cons.mp h with rfl | h
      · exact Or.inr (hasKey_mset_self m0 k v)
      · exact Or.inl h
    · exact Or.inr (hasKey_mset_of m0 a v k h)

theorem becomeLeader_keysOK (c : Config) (s : NodeState) (now : Nat) : KeysOK (becomeLeader c s now).1 := by
  intro _ n hn
  have hn' : n ∈ s.others := hn
  have ht : n ∈ tracked s := List.mem_append_left _ hn'
  refine ⟨?_, ?_⟩
  · show HasKey ((tracked s).foldl (fun m n => mset m n 0) s.matchIndex) n
    exact foldl_mset_hasKey 0 _ _ _ (Or.inl ht)
  · show HasKey ((tracked s).map (fun n => (n, now))) n
    unfold HasKey; rw [mget_map_now _ _ _ ht]; rfl

theorem changeCluster_keysOK (s : NodeState) (now : Nat) (add : Bool) (n : Nat) (h : KeysOK s) :
    KeysOK (changeCluster s now add n).1 := by
  unfold changeCluster
  split
  · split
    · exact h
    · intro hl k hk
      have hl' : s.role = .leader := hl
      simp only at hk
      rcases List.mem_append.mp hk with hk | hk
      · obtain ⟨a, b⟩ := h hl' k hk
        refine ⟨hasKey_mset_of _ _ _ _ a, ?_⟩
        show HasKey (if s.role = .leader then mset s.lastResponse n now else s.lastResponse) k
        rw [if_pos hl']; exact hasKey_mset_of _ _ _ _ b
      · simp only [List.mem_singleton] at hk
        subst hk
        refine ⟨hasKey_mset_self _ _ _, ?_⟩
        show HasKey (if s.role = .leader then mset s.lastResponse k now else s.lastResponse) k
        rw [if_pos hl']; exact hasKey_mset_self _ _ _
  · split
    · exact h
    · split
      · exact h
      · intro hl k hk
        have hl' : s.role = .leader := hl
        have hk' : k ∈ sdel s.others n := hk
        unfold sdel at hk'
        obtain ⟨hk1, hk2⟩ := List.mem_filter.mp hk'
        have hne : k ≠ n := by simpa using hk2
        obtain ⟨a, b⟩ := h hl' k hk1
        exact ⟨hasKey_mdel_ne _ _ _ hne a, b⟩

theorem applyCmd_keysOK {c : Config} {s : NodeState} {now : Nat} {e : Entry} {s' : NodeState} {r : Res}
    {o : List Output} (h : applyCmd c s now e = some (s', r, o)) (hk : KeysOK s) : KeysOK s' := by
  obtain ⟨cmd, idx, term⟩ := e
  cases cmd with
  | noop =>
    simp only [applyCmd, Option.some.injEq, Prod.mk.injEq] at h
    obtain ⟨rfl, _, _⟩ := h; exact hk
  | regular id raises =>
    simp only [applyCmd, Option.some.injEq, Prod.mk.injEq] at h
    obtain ⟨rfl, _, _⟩ := h; exact hk
  | version v =>
    simp only [applyCmd] at h
    split at h
    · cases h
    · split at h
      · simp only [Option.some.injEq, Prod.mk.injEq] at h
        obtain ⟨rfl, _, _⟩ := h; exact hk
      · simp only [Option.some.injEq, Prod.mk.injEq] at h
        obtain ⟨rfl, _, _⟩ := h; exact hk
  | membership a n =>
    simp only [applyCmd, Option.some.injEq, Prod.mk.injEq] at h
    obtain ⟨rfl, _, _⟩ := h
    exact hk

theorem applyLoop_keysOK (c : Config) (now : Nat) (es : List Entry) :
    ∀ s, KeysOK s → KeysOK (applyLoop c now es s).1 := by
  induction es with
  | nil => intro s h; exact h
  | cons e es ih =>
    intro s h
    simp only [applyLoop]
    split
    · exact h
    · next s1 res o1 hc =>
      have h0 : KeysOK { s with waiting := wdel s.waiting e.idx } := h
      have h1 : KeysOK s1 := applyCmd_keysOK hc h0
      exact ih _ h1

theorem applyEntries_keysOK (c : Config) (s : NodeState) (now : Nat) (h : KeysOK s) :
    KeysOK (applyEntries c s now).1 := by
  unfold applyEntries
  split
  · exact h
  · split
    · exact applyLoop_keysOK c now _ s h
    · exact h

theorem electionPhase_keysOK (c : Config) (s : NodeState) (now rand : Nat) (h : KeysOK s) :
    KeysOK (electionPhase c s now rand).1 := by
  unfold electionPhase
  split
  · exact h
  · split
    · exact h
    · split
      · simp only [setRole, leaderChanged]
        split
        · exact becomeLeader_keysOK c _ now
        · intro hl; cases hl
      · exact h

theorem leaderPhase_keysOK (c : Config) (s : NodeState) (now : Nat) (h : KeysOK s) :
    KeysOK (leaderPhase c s now).1 := by
  rw [leaderPhase_eq]
  split
  · split
    · exact h
    · intro hl; cases hl
  · exact h

theorem tick_keysOK (c : Config) (s : NodeState) (now rand : Nat) (h : KeysOK s) : KeysOK (tick c s now rand).1 := by
  rw [tick_fst]
  have h3 := applyEntries_keysOK c _ now (leaderPhase_keysOK c _ now (electionPhase_keysOK c s now rand h))
  rcases readyPhase_fst (applyEntries c (leaderPhase c (electionPhase c s now rand).1 now).1 now).1 with e | e
  · rw [e]; exact h3
  · rw [e]; exact h3

theorem onMessage_keysOK (c : Config) (s : NodeState) (frm : Nat) (m : Msg) (now rand : Nat) (h : KeysOK s) :
    KeysOK (onMessage c s frm m now rand).1 := by
  cases m with
  | requestVote t li lt =>
    show KeysOK (onRequestVote c s frm t li lt now rand).1
    intro hl
    have : (onRequestVote c s frm t li lt now rand).1 = s := onRequestVote_leader c s frm t li lt now rand hl
    rw [this] at hl ⊢
    exact h hl
  | responseVote t =>
    show KeysOK (onResponseVote c s t now).1
    rcases onResponseVote_cases c s t now with h1 | ⟨hc, h1⟩ | ⟨_, h1⟩
    · rw [h1]; exact h
    · rw [h1]; intro hl; have : s.role = .leader := hl; rw [hc] at this; cases this
    · rw [h1]; exact becomeLeader_keysOK c _ now
  | nextNodeIdx t reset next success =>
    show KeysOK (onNextNodeIdx s frm t reset next success now).1
    simp only [onNextNodeIdx]
    split
    · next hg =>
      have hl := hg.1
      cases reset <;> cases success <;> simp only [if_true, if_false, Bool.false_eq_true]
      all_goals (repeat' split)
      all_goals
        intro _ n hn
        obtain ⟨a, b⟩ := h hl n hn
        first
          | exact ⟨a, b⟩
          | exact ⟨a, hasKey_mset_of _ _ _ _ b⟩
          | exact ⟨hasKey_mset_of _ _ _ _ a, hasKey_mset_of _ _ _ _ b⟩
          | exact ⟨hasKey_mset_of _ _ _ _ a, b⟩
    · exact h

/-- `KeysOK` is preserved by every modelled handler (read-only disconnects: of non-voters). -/
theorem step_keysOK (c : Config) (s : NodeState) (e : Event) (h : KeysOK s)
    (hro : ∀ n, e = .roDisconnected n → n ∉ s.others) : KeysOK (step c s e).1 := by
  cases e with
  | tick now rand => exact tick_keysOK c s now rand h
  | deliver frm m now rand => exact onMessage_keysOK c s frm m now rand h
  | connected n => exact h
  | disconnected n => exact h
  | roConnected n =>
    intro hl k hk
    obtain ⟨a, b⟩ := h hl k hk
    exact ⟨hasKey_mset_of _ _ _ _ a, b⟩
  | roDisconnected n =>
    intro hl k hk
    obtain ⟨a, b⟩ := h hl k hk
    have hn : n ∉ s.others := hro n rfl
    exact ⟨hasKey_mdel_ne _ _ _ (fun (e : k = n) => hn (e ▸ hk)) a, b⟩

/-- every non-leader state is `KeysOK` (in particular the initial state of a node) -/
theorem keysOK_of_not_leader (s : NodeState) (h : s.role ≠ .leader) : KeysOK s := fun hl => absurd hl h

end PSO.NodeTick
