import PSO.Proofs.RaftTheorems

/-! # A concrete run used by the non-vacuity examples of the property files -/
namespace PSO.Raft

/-- A 3-node schedule: node 0 times out, node 1 votes, 0 becomes leader (no-op at position 1),
appends command 7, replicates both entries to node 1, receives the acknowledgement, commits, applies;
a heartbeat tells node 1 the commit index, node 1 applies. Node 2 stays behind. -/
def demoActs : List Action :=
  [ .timeout 0 [1, 2],
    .recvReqVote 1 (.reqVote 1 0 1 0 0),
    .recvVote 0 (.vote 1 1 0),
    .clientAppend 0 7,
    .sendAppend 0 1 0 2 0,
    .recvAppend 1 (.append 1 0 1 0 0 [⟨1, 0⟩, ⟨1, 7⟩] 0),
    .recvAck 0 (.ack 1 1 0 2),
    .advanceCommit 0 2,
    .apply 0, .apply 0,
    .sendAppend 0 1 2 0 2,
    .recvAppend 1 (.append 1 0 1 2 1 [] 2),
    .apply 1, .apply 1 ]

/-- (term, role is leader, commit, applied, log length) of nodes 0, 1, 2. -/
def demoSummary (s : State) : List (Nat × Bool × Nat × Nat × Nat) :=
  [0, 1, 2].map fun n =>
    ((s.nodes n).term, decide ((s.nodes n).role = .leader), (s.nodes n).commit, (s.nodes n).applied,
     (s.nodes n).log.length)

theorem demo_runs :
    (run 3 init demoActs).map demoSummary =
      some [(1, true, 2, 2, 3), (1, false, 2, 2, 3), (0, false, 0, 0, 1)] := by
  decide +kernel

theorem demo_reachable : ∃ s, run 3 init demoActs = some s ∧ Reachable 3 s ∧
    demoSummary s = [(1, true, 2, 2, 3), (1, false, 2, 2, 3), (0, false, 0, 0, 1)] := by
  have h := demo_runs
  cases hr : run 3 init demoActs with
  | none => rw [hr] at h; cases h
  | some s =>
    rw [hr] at h
    exact ⟨s, rfl, reachable_iff_run.mpr ⟨_, hr⟩, by simpa using h⟩

end PSO.Raft
