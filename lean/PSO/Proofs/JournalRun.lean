import PSO.Proofs.JournalOps
/-! Operation sequences: refinement of the list, reopen, crash points and the stored commit index. -/
namespace PSO.Journal

/-- What holds after a kill inside `op`: exactly what the property demands. -/
abbrev CrashAct (old : List Entry) (op : Op) (r : List Entry) : Prop := CrashSpec old op r

/-- Crash predicate of one operation of the object `j`. -/
def CrashQ (j : FJ) (op : Op) (d : Disk) : Prop :=
  (d.metaFile = j.disk.metaFile ∨ d.metaFile = j.mci) ∧ ∃ es, DInv d.file es ∧ CrashAct j.entries op es

/-- The per-operation limit condition (`OkFrom` unfolds to this). -/
def OkStep (l : List Entry) : Op → Prop
  | .add e => ValidEntry e ∧ 40 + encLen (l ++ [e]) < U32
  | _ => True

theorem OkFrom_cons (l : List Entry) (op : Op) (ops : List Op) :
    OkFrom l (op :: ops) ↔ OkStep l op ∧ OkFrom (listStep l op) ops := by
  cases op <;> simp [OkFrom, OkStep, listStep, and_assoc]

theorem QF.toCrashQ {j : FJ} {op : Op} {R : List Entry → Prop} {d : Disk}
    (h : QF j.disk R d) (hr : ∀ r, R r → CrashAct j.entries op r) : CrashQ j op d :=
  ⟨Or.inl h.1, let ⟨es, h1, h2⟩ := h.2.2; ⟨es, h1, hr _ h2⟩⟩

theorem storeMetaNow_ok {j : FJ} (hi : Inv j) (op : Op) (hop : CrashAct j.entries op j.entries) :
    Inv j.storeMetaNow.1 ∧ j.storeMetaNow.1.entries = j.entries ∧
    j.storeMetaNow.1.disk = applyPrims j.disk j.storeMetaNow.2 ∧
    j.storeMetaNow.1.mci = j.mci ∧ CrashAll (CrashQ j op) j.disk j.storeMetaNow.2 := by
  have hq0 : ∀ (m : Option Nat) (t : Tmp), (m = j.disk.metaFile ∨ m = j.mci) →
      CrashQ j op { j.disk with metaFile := m, tmp := t } :=
    fun m t hm => ⟨hm, j.entries, hi.1, hop⟩
  refine ⟨?_, rfl, rfl, rfl, ?_⟩
  · exact ⟨by simpa [FJ.storeMetaNow, applyPrim] using hi.1, hi.2⟩
  · simp only [FJ.storeMetaNow]
    apply CrashAll.cons
    · intro t; exact hq0 _ _ (Or.inl rfl)
    · apply CrashAll.cons
      · intro t; exact hq0 _ _ (Or.inl rfl)
      · apply CrashAll.cons
        · intro t; exact hq0 _ _ (Or.inl rfl)
        · apply CrashAll.nil; exact hq0 _ _ (Or.inr rfl)

theorem timer_ok {j : FJ} (hi : Inv j) :
    Inv j.timer.1 ∧ j.timer.1.entries = j.entries ∧ j.timer.1.disk = applyPrims j.disk j.timer.2 ∧
    j.timer.1.mci = j.mci ∧ CrashAll (CrashQ j .timer) j.disk j.timer.2 := by
  by_cases hs : j.metaSaved
  · have ht : j.timer = (j, []) := by simp [FJ.timer, hs]
    rw [ht]
    exact ⟨hi, rfl, rfl, rfl, CrashAll.nil ⟨Or.inl rfl, j.entries, hi.1, rfl⟩⟩
  · have ht : j.timer = j.storeMetaNow := by simp [FJ.timer, hs]
    rw [ht]
    exact storeMetaNow_ok hi .timer rfl

theorem clear_ver {j j' : FJ} {ps : List Prim} (h : j.clear = .ok (j', ps)) : j'.ver = j.ver := by
  unfold FJ.clear at h
  split at h
  · cases h
  · simp only [Except.ok.injEq, Prod.mk.injEq] at h
    obtain ⟨rfl, _⟩ := h; rfl

theorem delFrom_ver {j j' : FJ} {n : Nat} {ps : List Prim} (h : j.delFrom n = .ok (j', ps)) :
    j'.ver = j.ver := by
  unfold FJ.delFrom at h
  split at h
  · cases h
  · simp only at h
    split at h
    · cases h
    · simp only [Except.ok.injEq, Prod.mk.injEq] at h
      obtain ⟨rfl, _⟩ := h; rfl

theorem step_ok {j : FJ} (hi : Inv j) (hver : j.ver.length ≤ 8) (op : Op) (hok : OkStep j.entries op) :
    ∃ j' ps, j.step op = .ok (j', ps) ∧ Inv j' ∧ j'.entries = listStep j.entries op ∧
      j'.disk = applyPrims j.disk ps ∧ CrashAll (CrashQ j op) j.disk ps ∧
      (j'.mci = j.mci ∨ j'.mci = j.disk.metaFile ∨ ∃ v, op = .setCommit v ∧ j'.mci = some v) ∧
      j'.ver = j.ver := by
  cases op with
  | add e =>
    obtain ⟨j', ps, a1, a2, a3, a4, a5, _, a7, _⟩ := add_ok (d0 := j.disk) hi e hok.1 hok.2 rfl rfl
    exact ⟨j', ps, a1, a2, a3, a4, a7.mono (fun d h => h.toCrashQ (fun r hr => hr)), Or.inl a5,
      (add_shape a1).1⟩
  | clear =>
    obtain ⟨j', ps, a1, a2, a3, a4, a5, _, _, _, a9, _⟩ := clear_ok (d0 := j.disk) hi rfl rfl
    exact ⟨j', ps, a1, a2, a3, a4, a9.mono (fun d h => h.toCrashQ (fun r hr => hr)), Or.inl a5, clear_ver a1⟩
  | delFrom n =>
    obtain ⟨j', ps, a1, a2, a3, a4, a5, _, a7⟩ := delFrom_ok (d0 := j.disk) hi n rfl rfl
    exact ⟨j', ps, a1, a2, a3, a4, a7.mono (fun d h => h.toCrashQ (fun r hr => hr)), Or.inl a5, delFrom_ver a1⟩
  | delTo n =>
    obtain ⟨j', ps, a1, a2, a3, a4, a5, _, a7, a8⟩ := delTo_ok (d0 := j.disk) hi hver n rfl rfl
    exact ⟨j', ps, a1, a2, a3, a4, a8.mono (fun d h => h.toCrashQ (fun r hr => hr)), Or.inl a5, a7⟩
  | setCommit v =>
    exact ⟨_, [], rfl, hi, rfl, rfl, CrashAll.nil ⟨Or.inl rfl, j.entries, hi.1, rfl⟩,
      Or.inr (Or.inr ⟨v, rfl, rfl⟩), rfl⟩
  | timer =>
    obtain ⟨a1, a2, a3, a4, a5⟩ := timer_ok hi
    refine ⟨_, _, rfl, a1, a2, a3, a5, Or.inl a4, ?_⟩
    show j.timer.1.ver = j.ver
    unfold FJ.timer; split <;> rfl
  | reopen =>
    refine ⟨_, [], openDisk_of_DInv j.ver hi.1, ⟨hi.1, rfl⟩, rfl, rfl,
      CrashAll.nil ⟨Or.inl rfl, j.entries, hi.1, rfl⟩, Or.inr (Or.inl rfl), rfl⟩
  | setTermVote =>
    obtain ⟨a1, a2, a3, a4, a5⟩ := storeMetaNow_ok hi .setTermVote rfl
    exact ⟨_, _, rfl, a1, a2, a3, a5, Or.inl a4, rfl⟩

/-- Outside the limits `add` fails with `struct.error` (the error branch). -/
theorem add_error {j : FJ} (hi : Inv j) (e : Entry) (h : ¬ OkStep j.entries (.add e)) :
    j.add e = .error .structError := by
  unfold FJ.add
  by_cases h1 : e.idx < U64 ∧ e.term < U64
  · rw [if_neg (fun hn => hn h1)]
    by_cases h2 : (encBody e).length < U32
    · have h3 : ¬ 40 + encLen (j.entries ++ [e]) < U32 := fun h3 => h ⟨h1, h3⟩
      have h4 : ¬ j.cur + (encRecord e).length < U32 := by
        rw [hi.2]; simp [encLen_append, encLen] at h3 ⊢; omega
      rw [if_neg (fun hn => hn h2)]
      simp only [setLast, if_neg h4]
    · rw [if_pos h2]
  · rw [if_pos h1]

theorem step_error {j : FJ} (hi : Inv j) (op : Op) (h : ¬ OkStep j.entries op) :
    j.step op = .error .structError := by
  cases op with
  | add e => exact add_error hi e h
  | _ => exact absurd trivial h

/-- Commit indices stored in memory and in `.meta` are values that were set. -/
def MetaInv (S : List Nat) (j : FJ) : Prop :=
  (∀ v, j.mci = some v → v ∈ S) ∧ (∀ v, j.disk.metaFile = some v → v ∈ S)

theorem setValues_append (a b : List Op) : setValues (a ++ b) = setValues a ++ setValues b := by
  induction a with
  | nil => rfl
  | cons op a ih => cases op <;> simp [setValues, ih]

/-- Reachability from the empty journal, bundled. -/
structure Reach (S : List Nat) (l : List Entry) (j : FJ) : Prop where
  inv : Inv j
  ents : j.entries = l
  metaInv : MetaInv S j
  verLen : j.ver.length ≤ 8

theorem step_reach {S l j} (hr : Reach S l j) (op : Op) (hok : OkStep l op) :
    ∃ j' ps, j.step op = .ok (j', ps) ∧ Reach (S ++ setValues [op]) (listStep l op) j' ∧
      j'.disk = applyPrims j.disk ps ∧ CrashAll (CrashQ j op) j.disk ps := by
  obtain ⟨hi, he, hm, hvl⟩ := hr
  subst he
  obtain ⟨j', ps, a1, a2, a3, a4, a5, a6, a7⟩ := step_ok hi hvl op hok
  refine ⟨j', ps, a1, ⟨a2, a3, ⟨?_, ?_⟩, by rw [a7]; exact hvl⟩, a4, a5⟩
  · intro v hv
    rcases a6 with h | h | ⟨w, rfl, h⟩
    · exact List.mem_append_left _ (hm.1 v (h ▸ hv))
    · exact List.mem_append_left _ (hm.2 v (h ▸ hv))
    · rw [h] at hv; cases hv; simp [setValues]
  · intro v hv
    have hf := a5.final
    rw [← a4] at hf
    rcases hf.1 with h | h
    · exact List.mem_append_left _ (hm.2 v (h ▸ hv))
    · exact List.mem_append_left _ (hm.1 v (h ▸ hv))

theorem run_reach {S l j} (hr : Reach S l j) (ops : List Op) (hok : OkFrom l ops) :
    ∃ j', run j ops = .ok j' ∧ Reach (S ++ setValues ops) (runList l ops) j' := by
  induction ops generalizing S l j with
  | nil => exact ⟨j, rfl, by simpa [setValues, runList] using hr⟩
  | cons op ops ih =>
    rw [OkFrom_cons] at hok
    obtain ⟨j1, ps, a1, a2, _, _⟩ := step_reach hr op hok.1
    obtain ⟨j2, b1, b2⟩ := ih a2 hok.2
    refine ⟨j2, by simp only [run, a1, b1], ?_⟩
    have : S ++ setValues (op :: ops) = S ++ setValues [op] ++ setValues ops := by
      rw [List.append_assoc, ← setValues_append]; rfl
    rw [this]; exact b2

/-- A run that succeeds was within the limits (converse of `run_reach`). -/
theorem run_ok_imp {S l j} (hr : Reach S l j) (ops : List Op) (j' : FJ) (h : run j ops = .ok j') :
    OkFrom l ops := by
  induction ops generalizing S l j with
  | nil => trivial
  | cons op ops ih =>
    rw [OkFrom_cons]
    by_cases hok : OkStep l op
    · obtain ⟨j1, ps, a1, a2, _, _⟩ := step_reach hr op hok
      simp only [run, a1] at h
      exact ⟨hok, ih a2 h⟩
    · have := step_error hr.inv op (by rw [hr.ents]; exact hok)
      simp [run, this] at h

theorem OkFrom_append (l : List Entry) (a b : List Op) :
    OkFrom l (a ++ b) ↔ OkFrom l a ∧ OkFrom (runList l a) b := by
  induction a generalizing l with
  | nil => simp [OkFrom, runList]
  | cons op a ih =>
    simp only [List.cons_append, OkFrom_cons, ih, runList, List.foldl_cons, and_assoc]

theorem OkFrom_snoc (l : List Entry) (ops : List Op) (op : Op) :
    OkFrom l (ops ++ [op]) ↔ OkFrom l ops ∧ OkStep (runList l ops) op := by
  rw [OkFrom_append, OkFrom_cons]; simp [OkFrom]

theorem run_append (j : FJ) (a b : List Op) :
    run j (a ++ b) = match run j a with
      | .error x => .error x
      | .ok j' => run j' b := by
  induction a generalizing j with
  | nil => simp [run]
  | cons op a ih =>
    simp only [List.cons_append, run]
    cases j.step op with
    | error x => rfl
    | ok r => exact ih r.1

/-- Kill inside `op` at any crash point, then reopen: the journal opens, holds entries allowed by
`CrashAct`, and reports a commit index that is the default or was set. -/
theorem crash_open {S l j} (hr : Reach S l j) (op : Op) (hok : OkStep l op) :
    ∃ j' ps, j.step op = .ok (j', ps) ∧ j'.disk = applyPrims j.disk ps ∧
      Reach (S ++ setValues [op]) (listStep l op) j' ∧
      ∀ k t, ∃ jc, openDisk j.ver (crashDisk j.disk ps k t) = .ok (jc, []) ∧ CrashAct l op jc.entries ∧
        Reach S jc.entries jc ∧ (jc.commitIndex = 1 ∨ jc.commitIndex ∈ S) := by
  obtain ⟨j', ps, a1, a2, a3, a4⟩ := step_reach hr op hok
  refine ⟨j', ps, a1, a3, a2, ?_⟩
  intro k t
  obtain ⟨hmeta, es, hd, hact⟩ := a4 k t
  have hmi : ∀ v, (crashDisk j.disk ps k t).metaFile = some v → v ∈ S := by
    intro v hv
    rcases hmeta with h | h
    · exact hr.metaInv.2 v (by rw [← h, hv])
    · exact hr.metaInv.1 v (by rw [← h, hv])
  refine ⟨_, openDisk_of_DInv j.ver hd, by rw [← hr.ents]; exact hact, ⟨⟨hd, rfl⟩, rfl, ⟨hmi, hmi⟩, hr.verLen⟩, ?_⟩
  simp only [FJ.commitIndex]
  cases hmf : (crashDisk j.disk ps k t).metaFile with
  | none => left; rfl
  | some v =>
    right
    simp only [Option.getD_some]
    rcases hmeta with h | h
    · exact hr.metaInv.2 v (by rw [← h, hmf])
    · exact hr.metaInv.1 v (by rw [← h, hmf])

/-- The OLD head drop (`clear()` + re-`add`, before the repair of D15) killed right after its
`clear()`: nothing is left. -/
theorem crash_delToOld_after_clear {S l j} (hr : Reach S l j) (n : Nat) :
    ∃ j' ps, j.delToOld n = .ok (j', ps) ∧
      ∀ t, ∃ jc, openDisk j.ver (crashDisk j.disk ps 1 t) = .ok (jc, []) ∧ jc.entries = [] := by
  obtain ⟨j', ps, a1, _, _, _, _, _, _, a8⟩ := delToOld_ok (d0 := j.disk) hr.inv n rfl rfl
  refine ⟨j', ps, a1, fun t => ?_⟩
  obtain ⟨_, _, es, hd, rfl⟩ := a8 t
  exact ⟨_, openDisk_of_DInv j.ver hd, rfl⟩

/-- While the header word is unchanged, ANY bytes in the record area of an `add` are harmless. -/
theorem add_any_garbage {S l j} (hr : Reach S l j) (e : Entry) (g : Bytes) (hg : g.length ≤ recLen e) :
    ∃ jc, openDisk j.ver { j.disk with file := storeAt (rfWrite j.disk.file j.cur (encRecord e)).1 j.cur g }
        = .ok (jc, []) ∧ jc.entries = l := by
  obtain ⟨⟨hd, hc⟩, he, _, _⟩ := hr
  obtain ⟨_, t2, t3, _⟩ := tailWrite (d0 := j.disk) e hd rfl rfl
  have hlen := t2.length_le (by simp)
  rw [encLen_append] at hlen; simp only [encLen] at hlen
  have hd' : DInv (storeAt (rfWrite j.disk.file (40 + encLen j.entries) (encRecord e)).1
      (40 + encLen j.entries) g) j.entries := by
    refine ⟨t2.prefix.storeTail (by simp) g (by omega), hd.2.1, ?_⟩
    rw [storeAt_length (by omega)]; exact t3
  rw [hc]
  exact ⟨_, openDisk_of_DInv (d := { j.disk with file := _ }) j.ver hd', he⟩

/-- A commit index that was set and then flushed by the timer is what a reopen reports. -/
theorem set_timer_persists {S l j} (hr : Reach S l j) (v : Nat) :
    ∃ j1 p1 j2 p2 jc, j.step (.setCommit v) = .ok (j1, p1) ∧ j1.step .timer = .ok (j2, p2) ∧
      openDisk j.ver j2.disk = .ok (jc, []) ∧ jc.commitIndex = v ∧ jc.entries = l := by
  have hd := hr.inv.1
  have h2 : ({ j with mci := some v, metaSaved := false } : FJ).step .timer =
      .ok ({ j with mci := some v, metaSaved := true,
                    disk := { j.disk with metaFile := some v, tmp := .absent } },
        [Prim.tmpCreate, Prim.tmpWrite (some v), Prim.tmpMove]) := by
    simp [FJ.step, FJ.timer, FJ.storeMetaNow, applyPrims, applyPrim]
  have hd2 : DInv ({ j.disk with metaFile := some v, tmp := .absent } : Disk).file j.entries := hd
  exact ⟨_, _, _, _, _, rfl, h2, openDisk_of_DInv j.ver hd2, rfl, hr.ents⟩

/-- A commit index that was set and then flushed by `setTermAndVote` is what a reopen reports. -/
theorem set_termvote_persists {S l j} (hr : Reach S l j) (v : Nat) :
    ∃ j1 p1 j2 p2 jc, j.step (.setCommit v) = .ok (j1, p1) ∧ j1.step .setTermVote = .ok (j2, p2) ∧
      openDisk j.ver j2.disk = .ok (jc, []) ∧ jc.commitIndex = v ∧ jc.entries = l := by
  have hd := hr.inv.1
  have h2 : ({ j with mci := some v, metaSaved := false } : FJ).step .setTermVote =
      .ok ({ j with mci := some v, metaSaved := true,
                    disk := { j.disk with metaFile := some v, tmp := .absent } },
        [Prim.tmpCreate, Prim.tmpWrite (some v), Prim.tmpMove]) := by
    simp [FJ.step, FJ.storeMetaNow, applyPrims, applyPrim]
  have hd2 : DInv ({ j.disk with metaFile := some v, tmp := .absent } : Disk).file j.entries := hd
  exact ⟨_, _, _, _, _, rfl, h2, openDisk_of_DInv j.ver hd2, rfl, hr.ents⟩

/-- The constructor does not look at `<journal>.tmp`. -/
theorem openCore_jtmp (ver : Bytes) (d : Disk) (p0 : List Prim) (x : Option Bytes) :
    openCore ver { d with jtmp := x } p0 = match openCore ver d p0 with
      | .error e => .error e
      | .ok (a, ps) => .ok ({ a with disk := { a.disk with jtmp := x } }, ps) := by
  unfold openCore
  by_cases h0 : d.file.length = 0
  · simp [h0]
  · by_cases h1 : d.file.length < INITIAL_SIZE
    · simp only [h0, h1, if_false, if_true, applyPrims, List.foldl_cons, List.foldl_nil, applyPrim]
      cases rdU32 (resizeFile d.file INITIAL_SIZE) LAST_RECORD_OFFSET_OFFSET with
      | none => rfl
      | some last =>
        simp only
        cases scan (resizeFile d.file INITIAL_SIZE) last FIRST_RECORD_OFFSET with
        | error e => rfl
        | ok r => rfl
    · simp only [h0, h1, if_false, applyPrims, List.foldl_nil]
      cases rdU32 d.file LAST_RECORD_OFFSET_OFFSET with
      | none => rfl
      | some last =>
        simp only
        cases scan d.file last FIRST_RECORD_OFFSET with
        | error e => rfl
        | ok r => rfl

theorem openDisk_jtmp (ver : Bytes) (d : Disk) (x : Option Bytes) :
    openDisk ver { d with jtmp := x } = match openDisk ver d with
      | .error e => .error e
      | .ok (a, ps) => .ok ({ a with disk := { a.disk with jtmp := x } }, ps) := by
  unfold openDisk
  by_cases h0 : d.file.length = 0
  · simp only [h0, if_true]
    exact openCore_jtmp ver (applyPrims d (createPrims ver)) _ x
  · simp only [h0, if_false]
    exact openCore_jtmp ver d [] x

theorem padTo_length (bs : Bytes) (n : Nat) (h : bs.length ≤ n) : (padTo bs n).length = n := by
  simp [padTo, zeros]; omega

theorem create_reach (ver : Bytes) (hver : ver.length ≤ 8) : Reach [] [] (create ver) :=
  ⟨⟨DInv_fresh ver hver, rfl⟩, rfl, ⟨by simp [create], by simp [create]⟩, hver⟩

@[simp] theorem create_ver (ver : Bytes) : (create ver).ver = ver := rfl

theorem run_ver {S l j} (hr : Reach S l j) (ops : List Op) (j' : FJ) (h : run j ops = .ok j') :
    j'.ver = j.ver := by
  induction ops generalizing S l j with
  | nil => simp [run] at h; rw [h]
  | cons op ops ih =>
    by_cases hok : OkStep l op
    · obtain ⟨j1, ps, a1, a2, a3, a4, a5, a6, a7⟩ := step_ok hr.inv hr.verLen op (by rw [hr.ents]; exact hok)
      have hr1 : Reach (S ++ setValues [op]) (listStep l op) j1 := by
        obtain ⟨j1', ps', b1, b2, _, _⟩ := step_reach hr op hok
        rw [a1] at b1; cases b1; exact b2
      simp only [run, a1] at h
      rw [ih hr1 h, a7]
    · have := step_error hr.inv op (by rw [hr.ents]; exact hok)
      simp [run, this] at h

theorem totalBytes_ok (ops : List Op) : ∀ l : List Entry, encLen l + totalBytes ops < U32 →
    ops.all opValid = true → OkFrom l ops := by
  induction ops with
  | nil => intro _ _ _; trivial
  | cons op ops ih =>
    intro l hb hv
    simp only [List.all_cons, Bool.and_eq_true] at hv
    rw [OkFrom_cons]
    have hls : encLen (listStep l op) + totalBytes ops ≤ encLen l + totalBytes (op :: ops) := by
      cases op with
      | add e => simp [listStep, totalBytes, encLen_append, encLen]; omega
      | clear => simp [listStep, totalBytes, encLen]
      | delFrom n => have := encLen_take_le l n; simp [listStep, totalBytes]; omega
      | delTo n => have := encLen_drop_le l n; simp [listStep, totalBytes]; omega
      | setCommit v => simp [listStep, totalBytes]
      | timer => simp [listStep, totalBytes]
      | reopen => simp [listStep, totalBytes]
      | setTermVote => simp [listStep, totalBytes]
    refine ⟨?_, ih _ (by omega) hv.2⟩
    cases op with
    | add e =>
      refine ⟨by simpa [opValid] using hv.1, ?_⟩
      have hge : 40 ≤ totalBytes ops := by
        clear ih hv hb hls
        induction ops with
        | nil => simp [totalBytes]
        | cons o os ih => cases o <;> simp [totalBytes] <;> omega
      simp [totalBytes, encLen_append, encLen] at hb ⊢; omega
    | _ => trivial

end PSO.Journal
