import PSO.Proofs.RaftProgressRound

/-!
# Progress (C05), part 4: an election can always be won; `no_wedge`

From ANY reachable state: the voter with the most up-to-date log steps down if it leads, times out
until its term is above every voter's, requests the votes, every other voter grants (higher term,
log comparison by maximality), the votes are delivered, it becomes leader and appends its no-op;
`round` does the rest.
-/
namespace PSO.Raft

theorem exists_bound (f : Nat → Nat) : ∀ N, ∃ M, ∀ d, d < N → f d ≤ M := by
  intro N
  induction N with
  | zero => exact ⟨0, fun d hd => absurd hd (Nat.not_lt_zero _)⟩
  | succ n ih =>
    obtain ⟨M, hM⟩ := ih
    refine ⟨max M (f n), fun d hd => ?_⟩
    by_cases hdn : d = n
    · subst hdn; exact Nat.le_max_right _ _
    · exact Nat.le_trans (hM d (by omega)) (Nat.le_max_left _ _)

/-- A lexicographic maximum of `(a d, b d)` over a non-empty list. -/
theorem exists_lex_max (a b : Nat → Nat) : ∀ (l : List Nat), l ≠ [] →
    ∃ c, c ∈ l ∧ ∀ d, d ∈ l → a d < a c ∨ (a d = a c ∧ b d ≤ b c) := by
  intro l
  induction l with
  | nil => intro h; exact absurd rfl h
  | cons x xs ih =>
    intro _
    by_cases hxs : xs = []
    · subst hxs
      refine ⟨x, by simp, fun d hd => ?_⟩
      simp at hd; subst hd; exact Or.inr ⟨rfl, Nat.le_refl _⟩
    · obtain ⟨c, hc, hmax⟩ := ih hxs
      by_cases hcmp : a c < a x ∨ (a c = a x ∧ b c ≤ b x)
      · refine ⟨x, by simp, fun d hd => ?_⟩
        rcases List.mem_cons.mp hd with h | h
        · subst h; exact Or.inr ⟨rfl, Nat.le_refl _⟩
        · have := hmax d h; omega
      · refine ⟨c, List.mem_cons_of_mem _ hc, fun d hd => ?_⟩
        rcases List.mem_cons.mp hd with h | h
        · subst h; omega
        · exact hmax d h

/-- Some node of a non-empty list holds a log at least as up to date as every node of the list. -/
theorem exists_most_up_to_date (s : State) (Q : List Nat) (hQ : Q ≠ []) :
    ∃ c, c ∈ Q ∧ ∀ d, d ∈ Q →
      upToDate (lastTerm (s.nodes c).log) ((s.nodes c).log.length - 1) (s.nodes d).log = true := by
  obtain ⟨c, hc, hmax⟩ := exists_lex_max (fun d => lastTerm (s.nodes d).log)
    (fun d => (s.nodes d).log.length - 1) Q hQ
  refine ⟨c, hc, fun d hd => ?_⟩
  have := hmax d hd
  simp only [upToDate, Bool.and_eq_true, Bool.not_eq_true', decide_eq_false_iff_not, Bool.and_eq_false_iff,
    beq_eq_false_iff_ne, ne_eq]
  omega

theorem quorum_ne_nil {N : Nat} {Q : List Nat} (hQ : IsQuorum N Q) : Q ≠ [] := by
  intro h; have := hQ.2.2; rw [h] at this; simp at this

/-- `j` fruitless election timeouts (no vote requested): the term grows by `j`. -/
theorem raise_term {N : Nat} {c : Nat} (hc : c < N) : ∀ (j : Nat) (s : State),
    (j = 0 ∨ isMajority N 1 = false) → (s.nodes c).role ≠ .leader →
    ∃ s', run N s (List.replicate j (.timeout c [])) = some s' ∧
      (s'.nodes c).term = (s.nodes c).term + j ∧ (s'.nodes c).role ≠ .leader ∧
      (s'.nodes c).log = (s.nodes c).log ∧ (s'.nodes c).commit = (s.nodes c).commit ∧
      (∀ x, x ≠ c → s'.nodes x = s.nodes x) := by
  intro j
  induction j with
  | zero => intro s _ h; exact ⟨s, rfl, rfl, h, rfl, rfl, fun _ _ => rfl⟩
  | succ j ih =>
    intro s hj hnl
    have hmaj : isMajority N 1 = false := by
      rcases hj with h | h
      · omega
      · exact h
    obtain ⟨s1, hs1, hfr1, hT1, hcm1, _, _, _, hcase⟩ :=
      step_timeout (N := N) (s := s) (n := c) (dsts := []) hc hnl (fun d hd => by cases hd)
    rcases hcase with ⟨h, _⟩ | ⟨_, hrole1, hlog1, _⟩
    · rw [hmaj] at h; cases h
    · obtain ⟨s2, hr2, hT2, hnl2, hlog2, hcm2, hfr2⟩ := ih s1 (Or.inr hmaj) (by rw [hrole1]; simp)
      refine ⟨s2, by rw [List.replicate_succ]; exact run_cons_some hs1 hr2, by rw [hT2, hT1]; omega, hnl2,
        by rw [hlog2, hlog1], by rw [hcm2, hcm1], fun x hx => by rw [hfr2 x hx, hfr1 x hx]⟩

/-- From any reachable state, a voter of a connected majority `Q` whose log is the most up to date
within `Q` can win an election in a term above every voter's current term, using only nodes of `Q`. -/
theorem elect {N : Nat} {s : State} (Q : List Nat) (hQ : IsQuorum N Q) (hR : Reachable N s) {c : Nat}
    (hcQ : c ∈ Q)
    (hmax : ∀ d, d ∈ Q → upToDate (lastTerm (s.nodes c).log) ((s.nodes c).log.length - 1) (s.nodes d).log = true) :
    ∃ as s', NoFault as ∧ run N s as = some s' ∧ Reachable N s' ∧ (s'.nodes c).role = .leader ∧
      (∀ d, d < N → (s.nodes d).term < (s'.nodes c).term) ∧
      (∀ d, d ∈ Q → (s'.nodes d).term = (s'.nodes c).term) ∧
      (s'.nodes c).log = (s.nodes c).log ++ [⟨(s'.nodes c).term, 0⟩] ∧
      (s'.nodes c).commit = (s.nodes c).commit ∧
      (∀ x, x ∉ Q → s'.nodes x = s.nodes x) := by
  have hc : c < N := hQ.2.1 c hcQ
  obtain ⟨M, hM⟩ := exists_bound (fun d => (s.nodes d).term) N
  -- (a) step down if leading
  obtain ⟨as0, s0, hnf0, hrun0, hnl0, hT0, hlog0, hcm0, hfr0⟩ :
      ∃ as0 s0, NoFault as0 ∧ run N s as0 = some s0 ∧ (s0.nodes c).role ≠ .leader ∧
        (s0.nodes c).term = (s.nodes c).term ∧ (s0.nodes c).log = (s.nodes c).log ∧
        (s0.nodes c).commit = (s.nodes c).commit ∧ (∀ x, x ≠ c → s0.nodes x = s.nodes x) := by
    by_cases hl : (s.nodes c).role = .leader
    · exact ⟨[.stepDown c], _, noFault_of_forall (by simp [Action.isFault]), run_one (step_stepDown hc hl),
        by simp, by simp, by simp, by simp, fun x hx => by simp [setNode, hx]⟩
    · exact ⟨[], s, NoFault.nil, rfl, hl, rfl, rfl, rfl, fun _ _ => rfl⟩
  -- (b) raise the term to the maximum of the voters' terms
  obtain ⟨j, hj, hjT⟩ : ∃ j, (j = 0 ∨ isMajority N 1 = false) ∧
      ∀ d, d < N → (s.nodes d).term < (s.nodes c).term + j + 1 := by
    cases hmaj : isMajority N 1 with
    | true =>
      have : N < 2 := by simpa [isMajority] using hmaj
      refine ⟨0, Or.inl rfl, fun d hd => ?_⟩
      have hdc : d = c := by omega
      subst hdc; omega
    | false =>
      refine ⟨M - (s.nodes c).term, Or.inr rfl, fun d hd => ?_⟩
      have h1 := hM d hd; have h2 := hM c hc
      omega
  obtain ⟨s1, hrun1, hT1, hnl1, hlog1, hcm1, hfr1⟩ := raise_term (N := N) hc j s0 hj hnl0
  -- (c) the timeout that requests the votes of the connected voters
  have herase : ∀ d, d ∈ Q.erase c → d ∈ Q ∧ d ≠ c := fun d hd =>
    ⟨List.mem_of_mem_erase hd, fun e => ((List.Nodup.mem_erase_iff hQ.1).mp hd).1 e⟩
  obtain ⟨s2, hs2, hfr2, hT2, hcm2, _, hreq2, _, hcase2⟩ :=
    step_timeout (N := N) (s := s1) (n := c) (dsts := Q.erase c) hc hnl1
      (fun d hd => ⟨hQ.2.1 d (herase d hd).1, (herase d hd).2⟩)
  have hrun2 : run N s (as0 ++ (List.replicate j (.timeout c []) ++ [.timeout c (Q.erase c)])) = some s2 :=
    run_append_some hrun0 (run_append_some hrun1 (run_one hs2))
  have hR2 : Reachable N s2 := reachable_of_run hR hrun2
  obtain ⟨T, hT⟩ : ∃ T, (s.nodes c).term + j + 1 = T := ⟨_, rfl⟩
  obtain ⟨L, hL⟩ : ∃ L, (s.nodes c).log = L := ⟨_, rfl⟩
  have hTc2 : (s2.nodes c).term = T := by rw [hT2, hT1, hT0]; exact hT
  have hL1 : (s1.nodes c).log = L := by rw [hlog1, hlog0, hL]
  have hoth2 : ∀ x, x ≠ c → s2.nodes x = s.nodes x := fun x hx => by rw [hfr2 x hx, hfr1 x hx, hfr0 x hx]
  rw [hT1, hT0, hT, hL1] at hreq2
  rw [hT1, hT0, hT, hL1] at hcase2
  rw [hT] at hjT
  rw [hL] at hmax
  have hQlen : (Q.erase c).length + 1 = Q.length := by
    rw [List.length_erase_of_mem hcQ]
    have : 0 < Q.length := List.length_pos_of_mem hcQ
    omega
  -- (d) every other connected voter grants, every vote is delivered
  let IE : List Nat → State → Prop := fun rest s' =>
    Reachable N s' ∧ (s'.nodes c).term = T ∧ (s'.nodes c).commit = (s.nodes c).commit ∧
    (((s'.nodes c).role = .leader ∧ (s'.nodes c).log = L ++ [⟨T, 0⟩]) ∨
     ((s'.nodes c).role = .candidate ∧ (s'.nodes c).log = L ∧ (s'.nodes c).votes + rest.length = Q.length ∧
        isMajority N (s'.nodes c).votes = false)) ∧
    (∀ d ∈ rest, d ∈ Q ∧ d ≠ c ∧ Msg.reqVote T c d (L.length - 1) (lastTerm L) ∈ s'.msgs ∧
        (s'.nodes d).term < T ∧ (s'.nodes d).log = (s.nodes d).log) ∧
    rest.Nodup ∧
    (∀ d, d ∈ Q → d ≠ c → d ∉ rest → (s'.nodes d).term = T) ∧
    (∀ x, x ∉ Q → s'.nodes x = s.nodes x)
  have hE0 : IE (Q.erase c) s2 := by
    refine ⟨hR2, hTc2, by rw [hcm2, hcm1, hcm0], ?_, ?_, hQ.1.erase c,
      fun d h1 h2 h3 => absurd ((List.mem_erase_of_ne h2).mpr h1) h3,
      fun x hx => hoth2 x (fun e => hx (e ▸ hcQ))⟩
    · rcases hcase2 with ⟨_, h1, h2⟩ | ⟨h0, h1, h2, h3⟩
      · exact Or.inl ⟨h1, h2⟩
      · refine Or.inr ⟨h1, h2, ?_, by rw [h3]; exact h0⟩
        rw [h3]; omega
    · intro d hd
      obtain ⟨hdQ, hdc⟩ := herase d hd
      exact ⟨hdQ, hdc, hreq2 d hd, by rw [hoth2 d hdc]; exact hjT d (hQ.2.1 d hdQ), by rw [hoth2 d hdc]⟩
  obtain ⟨asE, sE, hnfE, hrunE, hRE, hTE, hcmE, hcaseE, _, _, hdoneE, hobsE⟩ :=
    run_foreach (N := N) IE (by
      intro d rest s' ⟨hR', hT', hcm', hcase', hrest', hnd', hdone', hobs'⟩
      obtain ⟨hdQ, hdc, hreq, hdT, hdlog⟩ := hrest' d List.mem_cons_self
      have hdN : d < N := hQ.2.1 d hdQ
      have hdnr : d ∉ rest := (List.nodup_cons.mp hnd').1
      obtain ⟨s3, hs3, hfr3, hT3, _, _, _, _, hmsgs3⟩ :=
        step_recvReqVote_grant (N := N) (s := s') (n := d) (t := T) (cand := c) hdN hc (fun e => hdc e.symm)
          hreq hdT (by rw [hdlog]; exact hmax d hdQ)
      have hc3 : s3.nodes c = s'.nodes c := hfr3 c (fun e => hdc e.symm)
      obtain ⟨s4, hs4, hfr4, hmsgs4, hT4, hcm4, _, hcase4⟩ :=
        step_recvVote (N := N) (s := s3) (n := c) (t := T) (voter := d) hc
          (by rw [hmsgs3]; exact List.mem_append_right _ (List.mem_singleton.mpr rfl))
      have hrun : run N s' [.recvReqVote d (.reqVote T c d (L.length - 1) (lastTerm L)),
          .recvVote c (.vote T d c)] = some s4 := run_cons_some hs3 (run_one hs4)
      refine ⟨_, s4, noFault_of_forall (by simp [Action.isFault]), hrun, reachable_of_run hR' hrun,
        by rw [hT4, hc3]; exact hT', by rw [hcm4, hc3]; exact hcm', ?_, ?_, (List.nodup_cons.mp hnd').2, ?_,
        fun x hx => by
          rw [hfr4 x (fun e => hx (e ▸ hcQ)), hfr3 x (fun e => hx (e ▸ hdQ))]; exact hobs' x hx⟩
      · rw [hc3] at hcase4
        rcases hcase' with ⟨hr', hl'⟩ | ⟨hr', hl', hv', hm'⟩
        · rcases hcase4 with ⟨h, _⟩ | ⟨h, _⟩ | ⟨_, h⟩
          · rw [hr'] at h; cases h
          · rw [hr'] at h; cases h
          · rw [h]; exact Or.inl ⟨hr', hl'⟩
        · rcases hcase4 with ⟨_, _, _, h1, h2⟩ | ⟨_, _, h0, h1, h2, h3⟩ | ⟨h, _⟩
          · exact Or.inl ⟨h1, by rw [h2, hl', hT']⟩
          · refine Or.inr ⟨h1, by rw [h2, hl'], ?_, by rw [h3]; exact h0⟩
            rw [h3]; simp only [List.length_cons] at hv'; omega
          · exact absurd ⟨hr', hT'.symm⟩ h
      · intro x hx
        obtain ⟨hxQ, hxc, hxreq, hxT, hxlog⟩ := hrest' x (List.mem_cons_of_mem _ hx)
        have hxd : x ≠ d := fun e => hdnr (e ▸ hx)
        refine ⟨hxQ, hxc, ?_, by rw [hfr4 x hxc, hfr3 x hxd]; exact hxT, by rw [hfr4 x hxc, hfr3 x hxd]; exact hxlog⟩
        rw [hmsgs4, hmsgs3]
        refine (List.mem_erase_of_ne (by simp)).mpr (List.mem_append_left _ ?_)
        exact (List.mem_erase_of_ne (by simp [hxd])).mpr hxreq
      · intro x hxQ hxc hxr
        by_cases hxd : x = d
        · subst hxd; rw [hfr4 x hxc]; exact hT3
        · rw [hfr4 x hxc, hfr3 x hxd]; exact hdone' x hxQ hxc (by simp [hxd, hxr])) (Q.erase c) s2 hE0
  have hldr : (sE.nodes c).role = .leader ∧ (sE.nodes c).log = L ++ [⟨T, 0⟩] := by
    rcases hcaseE with h | ⟨_, _, hv, hm⟩
    · exact h
    · simp only [List.length_nil, Nat.add_zero] at hv
      rw [hv] at hm
      have : isMajority N Q.length = true := by rw [isMajority_iff]; exact hQ.2.2
      rw [this] at hm; cases hm
  refine ⟨_, sE, ?_, run_append_some hrun2 hrunE, hRE, hldr.1, ?_, ?_, by rw [hldr.2, hTE, hL], hcmE, hobsE⟩
  · exact (hnf0.append ((NoFault.replicate rfl).append (noFault_of_forall (by simp [Action.isFault])))).append hnfE
  · intro d hd; rw [hTE]; exact hjT d hd
  · intro d hd
    by_cases hdc : d = c
    · subst hdc; rfl
    · rw [hTE]; exact hdoneE d hd hdc (by simp)

/-- **No wedge.** From every reachable state — whatever happened before: any interleaving of
elections, partial replication, snapshots, message loss, restarts, stale messages still in flight — and
for every majority `Q` of voters that can exchange messages (plus connected observers `obs`) there is a
continuation without any fault action (no restart, no message loss; stale messages just stay in flight)
that leaves every node outside `Q ∪ obs` untouched, after which one voter of `Q` leads a term above
every earlier voter term and every node of `Q ∪ obs` holds the leader's log, has committed and applied
all of it.  (`hobsT`: an observer's term was learnt from a voter.) -/
theorem no_wedge_run {N : Nat} {s : State} (Q obs : List Nat) (hQ : IsQuorum N Q) (hobs : ∀ o ∈ obs, N ≤ o)
    (hobsT : ∀ o ∈ obs, ∃ d, d < N ∧ (s.nodes o).term ≤ (s.nodes d).term)
    (hR : Reachable N s) :
    ∃ as s' c, NoFault as ∧ run N s as = some s' ∧ Converged N Q obs s' c ∧
      (∀ d, d < N → (s.nodes d).term < (s'.nodes c).term) ∧
      (s'.nodes c).log = (s.nodes c).log ++ [⟨(s'.nodes c).term, 0⟩] ∧
      (∀ x, ¬ InScope Q obs x → s'.nodes x = s.nodes x) := by
  obtain ⟨c, hcQ, hmax⟩ := exists_most_up_to_date s Q (quorum_ne_nil hQ)
  obtain ⟨as1, s1, hnf1, hrun1, hR1, hr1, hgt1, hterm1, hlog1, hcm1, hfr1⟩ := elect Q hQ hR hcQ hmax
  have hlen : (s1.nodes c).log.length - 1 = (s.nodes c).log.length := by rw [hlog1]; simp
  have hobsQ : ∀ o ∈ obs, o ∉ Q := fun o ho hq => by
    have := hobs o ho; have := hQ.2.1 o hq; omega
  obtain ⟨as2, s2, hnf2, hrun2, hconv, hlog2, hterm2, hfr2⟩ := round Q obs hQ hobs hR1 hcQ hr1
    (by
      intro d hd
      rcases hd with h | h
      · rw [hterm1 d h]
      · obtain ⟨v, hv, hle⟩ := hobsT d h
        rw [hfr1 d (hobsQ d h)]
        exact Nat.le_of_lt (Nat.lt_of_le_of_lt hle (hgt1 v hv)))
    (by rw [hlen]; rw [hlog1]; exact termAt_append_last _ _)
    (by rw [hlen, hcm1]; exact (inv_reachable hR).s.cm_lt c)
  refine ⟨as1 ++ as2, s2, c, hnf1.append hnf2, run_append_some hrun1 hrun2, hconv, ?_, ?_, ?_⟩
  · intro d hd; rw [hterm2]; exact hgt1 d hd
  · rw [hlog2, hterm2]; exact hlog1
  · intro x hx; rw [hfr2 x hx]; exact hfr1 x (fun h => hx (Or.inl h))

/-- After convergence a new command submitted to the leader is replicated to, committed and applied
by every connected voter and observer (again without any fault action, nobody else involved). -/
theorem converged_progress {N : Nat} {s : State} {c : Nat} (Q obs : List Nat) (hQ : IsQuorum N Q)
    (hobs : ∀ o ∈ obs, N ≤ o) (hR : Reachable N s) (hcv : Converged N Q obs s c) (cmd : Nat) :
    ∃ as s', NoFault as ∧ run N s (.clientAppend c cmd :: as) = some s' ∧ Converged N Q obs s' c ∧
      (s'.nodes c).log = (s.nodes c).log ++ [⟨(s.nodes c).term, cmd⟩] ∧
      (s'.nodes c).term = (s.nodes c).term ∧
      (∀ x, ¬ InScope Q obs x → s'.nodes x = s.nodes x) := by
  obtain ⟨s1, hs1, hfr1, hc1, _⟩ := step_clientAppend (N := N) (s := s) (n := c) (cmd := cmd) hcv.cN hcv.ldr
  have hR1 : Reachable N s1 := Reachable.step hR hs1
  have hLpos := log_pos (inv_reachable hR) c
  have hlen : (s1.nodes c).log.length - 1 = (s.nodes c).log.length := by rw [hc1]; simp
  obtain ⟨as2, s2, hnf2, hrun2, hconv, hlog2, hterm2, hfr2⟩ := round (s := s1) Q obs hQ hobs hR1 hcv.cQ
    (by rw [hc1]; exact hcv.ldr)
    (by
      intro d hd
      by_cases hdc : d = c
      · subst hdc; exact Nat.le_refl _
      · rw [hfr1 d hdc, hc1]; exact Nat.le_of_eq (hcv.term_eq d hd))
    (by rw [hlen]; rw [hc1]; exact termAt_append_last _ _)
    (by rw [hlen, hc1]; simp only []; rw [hcv.commit_eq c (Or.inl hcv.cQ)]; omega)
  refine ⟨as2, s2, hnf2, run_cons_some hs1 hrun2, hconv, by rw [hlog2, hc1], by rw [hterm2, hc1], ?_⟩
  intro x hx; rw [hfr2 x hx]; exact hfr1 x (fun e => hx (e ▸ Or.inl hcv.cQ))

/-- In a converged state nobody else leads the leader's term (voter or observer, connected or not). -/
theorem converged_unique_leader {N : Nat} {s : State} {c : Nat} {Q obs : List Nat} (hR : Reachable N s)
    (hcv : Converged N Q obs s c)
    {n : Nat} (hr : (s.nodes n).role = .leader) (ht : (s.nodes n).term = (s.nodes c).term) : n = c :=
  leaders_unique (inv_reachable hR).e hr hcv.ldr ht

end PSO.Raft
